(* MpfProofs.v — C13: proofs about the bit-exact model of mpf_mul and the accuracy certificate.
   Main result: mpf_mul_accurate (relative error below 2^(2-p), exact when representable,
   result well formed), for operands of any length and every precision prec >= 2. *)
From Coq Require Import ZArith List Lia Bool Psatz.
From Mpir Require Import Word DivDefs MpfDefs.
Import ListNotations.
Local Open Scope Z_scope.

(* ---------- powers of B ---------- *)

Lemma B_two : B = 2 ^ 64.
Proof. rewrite B_val. reflexivity. Qed.

Lemma B_ge2 : 2 <= B.
Proof. rewrite B_val. lia. Qed.

Lemma Bpow_pos k : 0 <= k -> 0 < B ^ k.
Proof. intros Hk. apply Z.pow_pos_nonneg; [exact B_pos | exact Hk]. Qed.

Lemma Bpow_add a b : 0 <= a -> 0 <= b -> B ^ (a + b) = B ^ a * B ^ b.
Proof. intros Ha Hb. apply Z.pow_add_r; assumption. Qed.

Lemma Bpow_mul3 a b c : 0 <= a -> 0 <= b -> 0 <= c -> B ^ a * B ^ b * B ^ c = B ^ (a + b + c).
Proof. intros Ha Hb Hc. rewrite !Z.pow_add_r by lia. reflexivity. Qed.

Lemma Bpow_mul4 a b c d : 0 <= a -> 0 <= b -> 0 <= c -> 0 <= d ->
  B ^ a * B ^ b * B ^ c * B ^ d = B ^ (a + b + c + d).
Proof. intros Ha Hb Hc Hd. rewrite !Z.pow_add_r by lia. reflexivity. Qed.

Lemma Bpow_lt_inv a b : 0 <= b -> B ^ a < B ^ b -> a < b.
Proof.
  intros Hb H. pose proof B_ge2 as HB.
  apply (Z.pow_lt_mono_r_iff B a b); [lia | exact Hb | exact H].
Qed.

Lemma Q4 prec : 2 <= prec -> 2 ^ (bits_of_prec prec - 2) * 4 = B ^ (prec - 1).
Proof.
  intros Hp. unfold bits_of_prec. rewrite B_two.
  rewrite <- Z.pow_mul_r by lia. change 4 with (2 ^ 2).
  rewrite <- Z.pow_add_r by lia. f_equal. lia.
Qed.

(* ---------- limb counts ---------- *)

Lemma nlimbs_pos x : 0 < x -> 1 <= nlimbs x.
Proof.
  intros Hx. unfold nlimbs. destruct (Z.eqb_spec x 0) as [E|_]; [lia|].
  pose proof (Z.log2_nonneg x) as Hl.
  pose proof (Z.div_pos (Z.log2 x) 64 Hl ltac:(lia)) as Hq. lia.
Qed.

Lemma nlimbs_spec x : 0 < x -> B ^ (nlimbs x - 1) <= x < B ^ (nlimbs x).
Proof.
  intros Hx. unfold nlimbs.
  destruct (Z.eqb_spec x 0) as [E|_]; [lia|].
  destruct (Z.log2_spec x Hx) as [Hlo Hhi].
  pose proof (Z.log2_nonneg x) as Hl.
  set (l := Z.log2 x) in *.
  pose proof (Z.div_mod l 64 ltac:(lia)) as Hdm.
  pose proof (Z.mod_pos_bound l 64 ltac:(lia)) as Hmb.
  set (q := l / 64) in *.
  assert (Hq : 0 <= q) by lia.
  replace (q + 1 - 1) with q by lia.
  rewrite B_two. rewrite <- !Z.pow_mul_r by lia.
  split.
  - apply Z.le_trans with (2 ^ l); [|exact Hlo]. apply Z.pow_le_mono_r; lia.
  - apply Z.lt_le_trans with (2 ^ Z.succ l); [exact Hhi|]. apply Z.pow_le_mono_r; lia.
Qed.

Lemma nlimbs_unique x k : 0 < x -> B ^ (k - 1) <= x < B ^ k -> nlimbs x = k.
Proof.
  intros Hx [Hlo Hhi].
  pose proof B_pos as HB0.
  pose proof (nlimbs_pos x Hx) as Hn1.
  destruct (nlimbs_spec x Hx) as [Hnlo Hnhi].
  assert (Hk : 1 <= k).
  { destruct (Z_lt_le_dec k 1) as [Hlt|Hge]; [|exact Hge]. exfalso.
    destruct (Z.eq_dec k 0) as [E|NE].
    - subst k. change (B ^ 0) with 1 in Hhi. lia.
    - rewrite Z.pow_neg_r in Hhi by lia. lia. }
  assert (H1 : k - 1 < nlimbs x).
  { apply Bpow_lt_inv; [lia|]. lia. }
  assert (H2 : nlimbs x - 1 < k).
  { apply Bpow_lt_inv; [lia|]. lia. }
  lia.
Qed.

(* ---------- truncation to the top k limbs ---------- *)

(* [hide] keeps non-linear facts out of lia's sight *)
Definition hide_sig : { h : Prop -> Prop | forall P : Prop, h P <-> P }.
Proof. exists (fun P : Prop => P). intros P. split; exact (fun H => H). Qed.
Definition hide (P : Prop) : Prop := proj1_sig hide_sig P.
Lemma hide_intro (P : Prop) : P -> hide P.
Proof. unfold hide. apply (proj2_sig hide_sig P). Qed.
Lemma hide_elim (P : Prop) : hide P -> P.
Proof. unfold hide. apply (proj2_sig hide_sig P). Qed.
Global Opaque hide.

Lemma top_limbs_spec M n k M' n' :
  1 <= k -> 1 <= n -> B ^ (n - 1) <= M < B ^ n ->
  top_limbs M n k = (M', n') ->
  1 <= n' /\ n' <= k /\ n' <= n /\ B ^ (n' - 1) <= M' < B ^ n'
  /\ hide (M' * B ^ (n - n') <= M /\ (M - M' * B ^ (n - n')) * B ^ (k - 1) < M)
  /\ (n <= k -> M' = M /\ n' = n).
Proof.
  intros Hk Hn [Hlo Hhi] Htop. unfold top_limbs in Htop.
  pose proof B_pos as HB0.
  destruct (Z.ltb_spec k n) as [Hlt|Hge].
  - injection Htop as HM' Hn'. subst n'.
    assert (HW : 0 < B ^ (n - k)) by (apply Bpow_pos; lia).
    assert (HK : 0 < B ^ (k - 1)) by (apply Bpow_pos; lia).
    assert (E1 : B ^ (n - 1) = B ^ (n - k) * B ^ (k - 1)).
    { rewrite <- Bpow_add by lia. f_equal. lia. }
    assert (E2 : B ^ n = B ^ (n - k) * B ^ k).
    { rewrite <- Bpow_add by lia. f_equal. lia. }
    set (W := B ^ (n - k)) in *. set (K := B ^ (k - 1)) in *.
    pose proof (Z.div_mod M W ltac:(lia)) as Hdm.
    pose proof (Z.mod_pos_bound M W HW) as Hmb.
    rewrite HM' in Hdm.
    assert (HloM' : K <= M').
    { rewrite <- HM'. apply Z.div_le_lower_bound; [exact HW|]. lia. }
    assert (HhiM' : M' < B ^ k).
    { rewrite <- HM'. apply Z.div_lt_upper_bound; [exact HW|]. lia. }
    set (r := M mod W) in *.
    assert (Hrk : r * K < W * K) by (apply Z.mul_lt_mono_pos_r; lia).
    assert (HWK : W * K <= W * M') by (apply Z.mul_le_mono_nonneg_l; lia).
    split; [lia|]. split; [lia|]. split; [lia|]. split; [lia|].
    split; [apply hide_intro; split; lia|]. intros Hnk; lia.
  - injection Htop as HM' Hn'. subst M' n'.
    replace (n - n) with 0 by lia. change (B ^ 0) with 1.
    assert (HK : 0 < B ^ (n - 1)) by (apply Bpow_pos; lia).
    split; [lia|]. split; [lia|]. split; [lia|]. split; [lia|].
    split; [apply hide_intro; split; lia|]. intros Hnk; lia.
Qed.

(* ---------- the arithmetic core of the error bound ---------- *)

Lemma err_core Mu Mv a b c K Q :
  0 < a <= Mu -> 0 < b <= Mv -> 0 <= c <= a * b -> 0 < Q -> Q * 4 = K ->
  (Mu - a) * K < Mu -> (Mv - b) * K < Mv -> (a * b - c) * K < a * b ->
  c <= Mu * Mv /\ (Mu * Mv - c) * Q < Mu * Mv.
Proof.
  intros [Ha HaM] [Hb HbM] [Hc Hcab] HQ HK Hu Hv Hp.
  assert (Hab : a * b <= Mu * Mv) by (apply Z.mul_le_mono_nonneg; lia).
  assert (T1 : (Mu - a) * K * Mv < Mu * Mv) by (apply Z.mul_lt_mono_pos_r; lia).
  assert (T2 : a * ((Mv - b) * K) < a * Mv) by (apply Z.mul_lt_mono_pos_l; lia).
  assert (T3 : a * Mv <= Mu * Mv) by (apply Z.mul_le_mono_nonneg_r; lia).
  assert (ES : (Mu * Mv - c) * K = (Mu - a) * K * Mv + a * ((Mv - b) * K) + (a * b - c) * K) by ring.
  assert (EQ : (Mu * Mv - c) * K = (Mu * Mv - c) * Q * 4) by (rewrite <- HK; ring).
  split; [lia|].
  set (E := Mu * Mv) in *. set (X := (E - c) * Q) in *. lia.
Qed.

(* ---------- values as scaled integers ---------- *)

Definition sg (b : bool) : Z := if b then -1 else 1.

Lemma sg_xorb a b : sg (xorb a b) = sg a * sg b.
Proof. destruct a, b; reflexivity. Qed.

Lemma sg_cases a : sg a = 1 \/ sg a = -1.
Proof. destruct a; simpl; auto. Qed.

Lemma fden_pos f : 0 < fden f.
Proof.
  unfold fden. destruct (Z.leb_spec 0 (fexp f - fn f)) as [H|H]; [lia|].
  apply Bpow_pos. lia.
Qed.

Lemma fnum_zero f : fM f = 0 -> fnum f = 0.
Proof.
  intros H. unfold fnum. rewrite H.
  destruct (fneg f), (0 <=? fexp f - fn f); reflexivity.
Qed.

Lemma fnum_scaled f k : 0 <= k -> 0 <= k + (fexp f - fn f) ->
  fnum f * B ^ k = sg (fneg f) * fM f * B ^ (k + (fexp f - fn f)) * fden f.
Proof.
  intros Hk Hk2. unfold fnum, fden, sg. cbv zeta.
  pose proof B_pos as HB0.
  destruct (Z.leb_spec 0 (fexp f - fn f)) as [H|H].
  - rewrite Bpow_add by lia. destruct (fneg f); ring.
  - replace (B ^ k) with (B ^ (k + (fexp f - fn f)) * B ^ (fn f - fexp f)).
    + destruct (fneg f); ring.
    + rewrite <- Bpow_add by lia. f_equal. lia.
Qed.

Lemma fnum_nonzero f : 0 < fM f -> fnum f <> 0.
Proof.
  intros HM. unfold fnum. cbv zeta.
  pose proof B_pos as HB0.
  destruct (Z.leb_spec 0 (fexp f - fn f)) as [H|H].
  - pose proof (Bpow_pos (fexp f - fn f) H) as HP.
    destruct (fneg f); apply Z.neq_mul_0; split; lia.
  - destruct (fneg f); lia.
Qed.

Lemma cross_reduce nu nv rn du dv rd su sv Mu Mv pm Au Av Ar Bu Bv Br BD :
  nu * Bu = su * Mu * Au * du -> nv * Bv = sv * Mv * Av * dv ->
  rn * Br = su * sv * pm * Ar * rd -> Ar * Bu * Bv = BD * Au * Av * Br ->
  (rn * (du * dv) - nu * nv * rd) * (Bu * Bv * Br)
    = su * sv * (rd * du * dv * Au * Av * Br) * (pm * BD - Mu * Mv)
  /\ nu * nv * rd * (Bu * Bv * Br) = su * sv * (rd * du * dv * Au * Av * Br) * (Mu * Mv).
Proof.
  intros H1 H2 H3 H4. split.
  - transitivity ((rn * Br) * (du * dv * Bu * Bv) - (nu * Bu) * (nv * Bv) * rd * Br); [ring|].
    rewrite H1, H2, H3.
    transitivity (su * sv * rd * du * dv * (pm * (Ar * Bu * Bv) - Mu * Mv * Au * Av * Br)); [ring|].
    rewrite H4. ring.
  - transitivity ((nu * Bu) * (nv * Bv) * rd * Br); [ring|].
    rewrite H1, H2. ring.
Qed.

Lemma value_reduce u v r D :
  fneg r = xorb (fneg u) (fneg v) -> 0 <= D ->
  fexp r - fn r = (fexp u - fn u) + (fexp v - fn v) + D ->
  exists C W s, 0 < C /\ 0 < W /\ (s = 1 \/ s = -1)
    /\ (fnum r * (fden u * fden v) - fnum u * fnum v * fden r) * W
         = s * C * (fM r * B ^ D - fM u * fM v)
    /\ fnum u * fnum v * fden r * W = s * C * (fM u * fM v).
Proof.
  intros Hneg HD Hexp.
  pose proof B_pos as HB0.
  set (ku := Z.abs (fexp u - fn u)). set (kv := Z.abs (fexp v - fn v)).
  set (kr := Z.abs (fexp r - fn r)).
  assert (Hku : 0 <= ku) by lia. assert (Hkv : 0 <= kv) by lia. assert (Hkr : 0 <= kr) by lia.
  assert (Hau : 0 <= ku + (fexp u - fn u)) by lia.
  assert (Hav : 0 <= kv + (fexp v - fn v)) by lia.
  assert (Har : 0 <= kr + (fexp r - fn r)) by lia.
  assert (E4 : B ^ (kr + (fexp r - fn r)) * B ^ ku * B ^ kv
               = B ^ D * B ^ (ku + (fexp u - fn u)) * B ^ (kv + (fexp v - fn v)) * B ^ kr).
  { rewrite Bpow_mul3, Bpow_mul4 by assumption. f_equal. lia. }
  pose proof (fden_pos u) as Pu. pose proof (fden_pos v) as Pv. pose proof (fden_pos r) as Pr.
  pose proof (Bpow_pos ku Hku) as Pku. pose proof (Bpow_pos kv Hkv) as Pkv.
  pose proof (Bpow_pos kr Hkr) as Pkr.
  pose proof (Bpow_pos _ Hau) as Pau.
  pose proof (Bpow_pos _ Hav) as Pav.
  pose proof (fnum_scaled u ku Hku Hau) as Eu.
  pose proof (fnum_scaled v kv Hkv Hav) as Ev.
  pose proof (fnum_scaled r kr Hkr Har) as Er.
  rewrite Hneg, sg_xorb in Er.
  destruct (cross_reduce _ _ _ _ _ _ _ _ _ _ _ _ _ _ _ _ _ _ Eu Ev Er E4) as [R1 R2].
  exists (fden r * fden u * fden v * B ^ (ku + (fexp u - fn u)) * B ^ (kv + (fexp v - fn v)) * B ^ kr).
  exists (B ^ ku * B ^ kv * B ^ kr).
  exists (sg (fneg u) * sg (fneg v)).
  split; [repeat apply Z.mul_pos_pos; assumption|].
  split; [repeat apply Z.mul_pos_pos; assumption|].
  split; [destruct (fneg u), (fneg v); simpl; auto|].
  split; [exact R1 | exact R2].
Qed.

Lemma acc_from_reduce X en rd W C s Y E Q :
  0 < W -> 0 < C -> 0 < rd -> (s = 1 \/ s = -1) -> 0 <= E ->
  X * W = s * C * Y -> en * rd * W = s * C * E ->
  Z.abs Y * Q < E ->
  Z.abs X * Q < Z.abs en * rd.
Proof.
  intros HW HC Hrd Hs HE HX Hen HY.
  apply (Z.mul_lt_mono_pos_r W); [exact HW|].
  replace (Z.abs X * Q * W) with (Z.abs (X * W) * Q).
  2:{ rewrite Z.abs_mul, (Z.abs_eq W) by lia. ring. }
  replace (Z.abs en * rd * W) with (Z.abs (en * rd * W)).
  2:{ rewrite !Z.abs_mul, (Z.abs_eq W), (Z.abs_eq rd) by lia. ring. }
  rewrite HX, Hen. rewrite !Z.abs_mul. rewrite (Z.abs_eq C), (Z.abs_eq E) by lia.
  assert (Hs1 : Z.abs s = 1) by lia. rewrite Hs1. rewrite !Z.mul_1_l.
  rewrite <- Z.mul_assoc. apply Z.mul_lt_mono_pos_l; assumption.
Qed.

(* ---------- mpf_mul on non-zero operands ---------- *)

Lemma drop_B t K P : 0 <= t -> 0 < K -> t * (K * B) < P -> t * K < P.
Proof.
  intros Ht HK H. pose proof B_ge2 as HB2.
  assert (HtK : 0 <= t * K) by (apply Z.mul_nonneg_nonneg; lia).
  assert (HtKB : t * K * 1 <= t * K * B) by (apply Z.mul_le_mono_nonneg_l; lia).
  replace (t * (K * B)) with (t * K * B) in H by ring.
  set (x := t * K) in *. set (y := x * B) in *. lia.
Qed.

Lemma err_assemble Mu Mv um vm pm Fu Fv Fp K Q :
  0 < um -> 0 < vm -> 0 < pm -> 0 < Fu -> 0 < Fv -> 0 < Fp -> 0 < Q -> Q * 4 = K ->
  um * Fu <= Mu -> (Mu - um * Fu) * K < Mu ->
  vm * Fv <= Mv -> (Mv - vm * Fv) * K < Mv ->
  pm * Fp <= um * vm -> (um * vm - pm * Fp) * (K * B) < um * vm ->
  pm * (Fu * Fv * Fp) <= Mu * Mv /\ (Mu * Mv - pm * (Fu * Fv * Fp)) * Q < Mu * Mv.
Proof.
  intros Hum Hvm Hpm HFu HFv HFp HQ HK Hule Huerr Hvle Hverr Hple Hperr.
  assert (HK0 : 0 < K) by (clear - HQ HK; lia).
  assert (Ht0 : 0 <= um * vm - pm * Fp) by (clear - Hple; lia).
  pose proof (drop_B _ _ _ Ht0 HK0 Hperr) as Ht3.
  assert (HF : 0 < Fu * Fv) by (apply Z.mul_pos_pos; assumption).
  assert (Hab : (um * Fu) * (vm * Fv) = (um * vm) * (Fu * Fv)) by ring.
  assert (Hc3 : ((um * Fu) * (vm * Fv) - pm * (Fu * Fv * Fp)) * K < (um * Fu) * (vm * Fv)).
  { rewrite Hab.
    replace ((um * vm * (Fu * Fv) - pm * (Fu * Fv * Fp)) * K)
      with ((um * vm - pm * Fp) * K * (Fu * Fv)) by ring.
    apply Z.mul_lt_mono_pos_r; assumption. }
  assert (Hc0 : 0 <= pm * (Fu * Fv * Fp) <= (um * Fu) * (vm * Fv)).
  { rewrite Hab. split.
    - apply Z.mul_nonneg_nonneg; [apply Z.lt_le_incl; exact Hpm|].
      apply Z.lt_le_incl. apply Z.mul_pos_pos; [exact HF | exact HFp].
    - replace (pm * (Fu * Fv * Fp)) with ((pm * Fp) * (Fu * Fv)) by ring.
      apply Z.mul_le_mono_nonneg_r; [apply Z.lt_le_incl; exact HF | exact Hple]. }
  assert (Ha0 : 0 < um * Fu <= Mu).
  { split; [apply Z.mul_pos_pos; assumption | exact Hule]. }
  assert (Hb0 : 0 < vm * Fv <= Mv).
  { split; [apply Z.mul_pos_pos; assumption | exact Hvle]. }
  exact (err_core Mu Mv (um * Fu) (vm * Fv) (pm * (Fu * Fv * Fp)) K Q
           Ha0 Hb0 Hc0 HQ HK Huerr Hverr Hc3).
Qed.

Lemma mpf_mul_core prec u v :
  2 <= prec ->
  0 < fM u -> fn u = nlimbs (fM u) -> 0 < fM v -> fn v = nlimbs (fM v) ->
  exists pm pn adj,
    mpf_mul prec u v = mkf (xorb (fneg u) (fneg v)) pm pn (fexp u + fexp v - adj)
    /\ 0 < pm /\ pn = nlimbs pm /\ pn <= prec + 1
    /\ 0 <= fn u + fn v - adj - pn
    /\ pm * B ^ (fn u + fn v - adj - pn) <= fM u * fM v
    /\ (fM u * fM v - pm * B ^ (fn u + fn v - adj - pn)) * 2 ^ (bits_of_prec prec - 2) < fM u * fM v
    /\ (fn u <= prec -> fn v <= prec -> nlimbs (fM u * fM v) <= prec + 1 ->
        pm * B ^ (fn u + fn v - adj - pn) = fM u * fM v).
Proof.
  intros Hp HMu Hnu HMv Hnv.
  pose proof B_pos as HB0.
  pose proof (nlimbs_spec (fM u) HMu) as HuB. rewrite <- Hnu in HuB.
  pose proof (nlimbs_spec (fM v) HMv) as HvB. rewrite <- Hnv in HvB.
  pose proof (nlimbs_pos (fM u) HMu) as Hnu1. rewrite <- Hnu in Hnu1.
  pose proof (nlimbs_pos (fM v) HMv) as Hnv1. rewrite <- Hnv in Hnv1.
  assert (Hp1 : 1 <= prec) by lia.
  assert (Hp2 : 1 <= prec + 1) by lia.
  unfold mpf_mul.
  destruct (top_limbs (fM u) (fn u) prec) as [um un] eqn:Eu.
  destruct (top_limbs (fM v) (fn v) prec) as [vm vn] eqn:Ev.
  destruct (top_limbs_spec _ _ _ _ _ Hp1 Hnu1 HuB Eu)
    as (Hun1 & Hunk & Hunn & [Humlo Humhi] & HuH & Huex).
  destruct (top_limbs_spec _ _ _ _ _ Hp1 Hnv1 HvB Ev)
    as (Hvn1 & Hvnk & Hvnn & [Hvmlo Hvmhi] & HvH & Hvex).
  destruct (Z.eqb_spec un 0) as [Hc|_]; [lia|].
  destruct (Z.eqb_spec vn 0) as [Hc|_]; [lia|].
  cbn [orb].
  assert (Pum : 0 < B ^ (un - 1)) by (apply Bpow_pos; lia).
  assert (Pvm : 0 < B ^ (vn - 1)) by (apply Bpow_pos; lia).
  assert (Hum0 : 0 < um) by lia.
  assert (Hvm0 : 0 < vm) by lia.
  assert (HPlo : B ^ (un + vn - 2) <= um * vm).
  { replace (un + vn - 2) with ((un - 1) + (vn - 1)) by lia. rewrite Bpow_add by lia.
    apply Z.mul_le_mono_nonneg; lia. }
  assert (HPhi : um * vm < B ^ (un + vn)).
  { rewrite Bpow_add by lia. apply Z.mul_lt_mono_nonneg; lia. }
  set (P := um * vm) in *.
  set (adj := if P <? B ^ (un + vn - 1) then 1 else 0).
  assert (Hadj : (adj = 0 \/ adj = 1) /\ B ^ (un + vn - adj - 1) <= P < B ^ (un + vn - adj)).
  { unfold adj. destruct (Z.ltb_spec P (B ^ (un + vn - 1))) as [Hlt|Hge].
    - split; [auto|]. replace (un + vn - 1 - 1) with (un + vn - 2) by lia. lia.
    - split; [auto|]. replace (un + vn - 0) with (un + vn) by lia.
      lia. }
  destruct Hadj as [Hadj01 HPB].
  destruct (top_limbs P (un + vn - adj) (prec + 1)) as [pm pn] eqn:Ep.
  exists pm, pn, adj.
  split; [reflexivity|].
  assert (HPdef : hide (P = um * vm)) by (apply hide_intro; reflexivity).
  clearbody adj. clearbody P.
  assert (Hrs1 : 1 <= un + vn - adj) by lia.
  destruct (top_limbs_spec _ _ _ _ _ Hp2 Hrs1 HPB Ep)
    as (Hpn1 & Hpnk & Hpnn & [Hpmlo Hpmhi] & HpH & Hpex).
  assert (Ppm : 0 < B ^ (pn - 1)) by (apply Bpow_pos; lia).
  assert (Hpm0 : 0 < pm) by lia.
  split; [exact Hpm0|].
  split; [symmetry; apply nlimbs_unique; [exact Hpm0 | split; assumption]|].
  split; [exact Hpnk|].
  split; [lia|].
  (* the scaled quantities *)
  set (du := fn u - un) in *. set (dv := fn v - vn) in *. set (dp := un + vn - adj - pn) in *.
  assert (ED : fn u + fn v - adj - pn = du + dv + dp) by (unfold du, dv, dp; lia).
  rewrite ED.
  assert (Hdu : 0 <= du) by (unfold du; lia).
  assert (Hdv : 0 <= dv) by (unfold dv; lia).
  assert (Hdp : 0 <= dp) by (unfold dp; lia).
  assert (Hduv : 0 <= du + dv) by lia.
  rewrite (Bpow_add (du + dv) dp Hduv Hdp), (Bpow_add du dv Hdu Hdv).
  pose proof (Bpow_pos du Hdu) as PFu. pose proof (Bpow_pos dv Hdv) as PFv.
  pose proof (Bpow_pos dp Hdp) as PFp.
  pose proof (Q4 prec Hp) as HQ4.
  assert (HQpos : 0 < 2 ^ (bits_of_prec prec - 2)).
  { apply Z.pow_pos_nonneg; [lia|]. unfold bits_of_prec. lia. }
  assert (EKB : B ^ (prec + 1 - 1) = B ^ (prec - 1) * B).
  { replace (prec + 1 - 1) with ((prec - 1) + 1) by lia. rewrite Bpow_add by lia.
    rewrite Z.pow_1_r. reflexivity. }
  assert (Hres :
    pm * (B ^ du * B ^ dv * B ^ dp) <= fM u * fM v
    /\ (fM u * fM v - pm * (B ^ du * B ^ dv * B ^ dp)) * 2 ^ (bits_of_prec prec - 2) < fM u * fM v).
  { apply hide_elim in HuH. apply hide_elim in HvH. apply hide_elim in HpH.
    apply hide_elim in HPdef.
    destruct HuH as [Hule Huerr]. destruct HvH as [Hvle Hverr]. destruct HpH as [Hple Hperr].
    subst P. rewrite EKB in Hperr.
    exact (err_assemble _ _ _ _ _ _ _ _ _ _ Hum0 Hvm0 Hpm0 PFu PFv PFp HQpos HQ4
             Hule Huerr Hvle Hverr Hple Hperr). }
  destruct Hres as [Hle Herr].
  split; [exact Hle|].
  split; [exact Herr|].
  clear Hle Herr.
  intros Hfu Hfv Hprod.
  destruct (Huex Hfu) as [Hum Hun]. destruct (Hvex Hfv) as [Hvm Hvn].
  pose proof (hide_elim _ HPdef) as HPe. rewrite Hum, Hvm in HPe.
  assert (HPpos : 0 < P) by (rewrite HPe; apply Z.mul_pos_pos; assumption).
  pose proof (nlimbs_unique P (un + vn - adj) HPpos HPB) as Hrs.
  rewrite <- HPe in Hprod.
  assert (Hrk : un + vn - adj <= prec + 1) by lia.
  destruct (Hpex Hrk) as [Hpm Hpn].
  assert (Zu : du = 0) by (unfold du; lia).
  assert (Zv : dv = 0) by (unfold dv; lia).
  assert (Zp : dp = 0) by (unfold dp; lia).
  rewrite Zu, Zv, Zp. change (B ^ 0) with 1.
  rewrite Hpm, HPe. ring.
Qed.

Lemma mpf_mul_zero_l prec u v : 0 <= prec -> fn u = 0 -> mpf_mul prec u v = mkf false 0 0 0.
Proof.
  intros Hp Hn. unfold mpf_mul, top_limbs. rewrite Hn.
  destruct (Z.ltb_spec prec 0) as [H|H]; [lia|].
  destruct (prec <? fn v); reflexivity.
Qed.

Lemma mpf_mul_zero_r prec u v : 0 <= prec -> fn v = 0 -> mpf_mul prec u v = mkf false 0 0 0.
Proof.
  intros Hp Hn. unfold mpf_mul. rewrite Hn.
  destruct (top_limbs (fM u) (fn u) prec) as [um un].
  unfold top_limbs.
  destruct (Z.ltb_spec prec 0) as [H|H]; [lia|].
  rewrite Z.eqb_refl, orb_true_r. reflexivity.
Qed.

Lemma mpf_mul_zero_case prec u v :
  2 <= prec -> mpf_mul prec u v = mkf false 0 0 0 -> fnum u * fnum v = 0 ->
  mpf_wf prec (mpf_mul prec u v)
  /\ acc_ok (bits_of_prec prec) (fnum u * fnum v) (fden u * fden v)
            (fnum (mpf_mul prec u v)) (fden (mpf_mul prec u v)) = true
  /\ (fn u <= prec -> fn v <= prec -> nlimbs (fM u * fM v) <= prec + 1 ->
        fnum (mpf_mul prec u v) * (fden u * fden v) = fnum u * fnum v * fden (mpf_mul prec u v)).
Proof.
  intros Hp Hr Hen. rewrite Hr, Hen.
  split.
  - unfold mpf_wf. cbn [fM fn fexp]. repeat split; lia.
  - split.
    + reflexivity.
    + intros _ _ _. reflexivity.
Qed.

(* ---------- C13 main theorem ---------- *)

Lemma mpf_mul_accurate : forall prec u v pu pv,
  2 <= prec -> mpf_wf pu u -> mpf_wf pv v ->
  mpf_wf prec (mpf_mul prec u v)
  /\ acc_ok (bits_of_prec prec) (fnum u * fnum v) (fden u * fden v)
            (fnum (mpf_mul prec u v)) (fden (mpf_mul prec u v)) = true
  /\ (fn u <= prec -> fn v <= prec -> nlimbs (fM u * fM v) <= prec + 1 ->
        fnum (mpf_mul prec u v) * (fden u * fden v) = fnum u * fnum v * fden (mpf_mul prec u v)).
Proof.
  intros prec u v pu pv Hp (Hu0 & Hu1 & _) (Hv0 & Hv1 & _).
  pose proof B_pos as HB0.
  destruct (Z.eq_dec (fM u) 0) as [Zu|NZu].
  { destruct (Hu0 Zu) as [Hn _].
    apply mpf_mul_zero_case; [exact Hp | apply mpf_mul_zero_l; [lia | exact Hn] |].
    rewrite (fnum_zero u Zu). reflexivity. }
  destruct (Z.eq_dec (fM v) 0) as [Zv|NZv].
  { destruct (Hv0 Zv) as [Hn _].
    apply mpf_mul_zero_case; [exact Hp | apply mpf_mul_zero_r; [lia | exact Hn] |].
    rewrite (fnum_zero v Zv). ring. }
  destruct (Hu1 NZu) as [Hnu HMu]. destruct (Hv1 NZv) as [Hnv HMv].
  destruct (mpf_mul_core prec u v Hp HMu Hnu HMv Hnv)
    as (pm & pn & adj & Hr & Hpm0 & Hpn & Hpnk & HD & Hle & Herr & Hex).
  set (r := mpf_mul prec u v) in *.
  assert (Hneg : fneg r = xorb (fneg u) (fneg v)) by (rewrite Hr; reflexivity).
  assert (HfM : fM r = pm) by (rewrite Hr; reflexivity).
  assert (Hfn : fn r = pn) by (rewrite Hr; reflexivity).
  assert (Hfe : fexp r = fexp u + fexp v - adj) by (rewrite Hr; reflexivity).
  set (D := fn u + fn v - adj - pn) in *.
  assert (Hexp : fexp r - fn r = (fexp u - fn u) + (fexp v - fn v) + D).
  { rewrite Hfe, Hfn. unfold D. lia. }
  destruct (value_reduce u v r D Hneg HD Hexp) as (C & W & s & HC & HW & Hs & R1 & R2).
  rewrite HfM in R1.
  assert (HE : 0 < fM u * fM v) by (apply Z.mul_pos_pos; assumption).
  pose proof (fden_pos r) as Prd.
  split.
  - unfold mpf_wf. rewrite HfM, Hfn. split; [lia|]. split; [|exact Hpnk].
    intros _. split; [exact Hpn | exact Hpm0].
  - split.
    + unfold acc_ok.
      assert (Hen : fnum u * fnum v <> 0).
      { apply Z.neq_mul_0. split; apply fnum_nonzero; assumption. }
      destruct (Z.eqb_spec (fnum u * fnum v) 0) as [Hc|_]; [contradiction|].
      apply Z.ltb_lt.
      apply (acc_from_reduce _ _ _ W C s (pm * B ^ D - fM u * fM v) (fM u * fM v));
        try assumption; [apply Z.lt_le_incl; exact HE|].
      replace (Z.abs (pm * B ^ D - fM u * fM v)) with (fM u * fM v - pm * B ^ D) by (clear - Hle; lia).
      exact Herr.
    + intros Hfu Hfv Hprod.
      pose proof (Hex Hfu Hfv Hprod) as Heq.
      rewrite Heq in R1.
      assert (HX0 : (fnum r * (fden u * fden v) - fnum u * fnum v * fden r) * W = 0).
      { rewrite R1. ring. }
      apply Z.mul_eq_0 in HX0. destruct HX0 as [HX0|HX0]; [clear - HX0; lia | clear - HX0 HW; lia].
Qed.

(* ---------- the certificate ---------- *)

Lemma certificate_spec : forall p en ed rn rd, 2 <= p -> 0 < ed -> 0 < rd ->
  (acc_ok p en ed rn rd = true <->
     (en = 0 /\ rn = 0) \/ (en <> 0 /\ Z.abs (rn * ed - en * rd) * 2 ^ (p - 2) < Z.abs en * rd))
  /\ (forall fit, cert_ok p fit en ed rn rd = true -> fit = true -> fits_bits p en ed = true -> rn * ed = en * rd).
Proof.
  intros p en ed rn rd Hp Hed Hrd. split.
  - unfold acc_ok. destruct (Z.eqb_spec en 0) as [He|He].
    + rewrite Z.eqb_eq. split.
      * intros H. left. split; assumption.
      * intros [[_ H]|[H _]]; [exact H | contradiction].
    + rewrite Z.ltb_lt. split.
      * intros H. right. split; assumption.
      * intros [[H _]|[_ H]]; [contradiction | exact H].
  - intros fit Hc Hfit Hfb. unfold cert_ok in Hc.
    apply andb_true_iff in Hc. destruct Hc as [_ Hc].
    rewrite Hfit, Hfb in Hc. cbn [andb] in Hc.
    apply Z.eqb_eq in Hc. exact Hc.
Qed.

Lemma prec_roundtrip : forall b, 0 <= b -> b <= bits_of_prec (prec_of_bits b) /\ 2 <= prec_of_bits b.
Proof.
  intros b Hb. unfold bits_of_prec, prec_of_bits.
  pose proof (Z.div_mod (Z.max 53 b + 2 * 64 - 1) 64 ltac:(lia)) as Hdm.
  pose proof (Z.mod_pos_bound (Z.max 53 b + 2 * 64 - 1) 64 ltac:(lia)) as Hmb.
  lia.
Qed.

Lemma C13_example :
  mpf_wf 3 (mkf false (B + 5) 2 1) /\ mpf_mul 2 (mkf false (B + 5) 2 1) (mkf true 3 1 1) = mkf true (3 * B + 15) 2 1
  /\ acc_ok 128 1 3 (2 ^ 130 / 3) (2 ^ 130) = true /\ acc_ok 128 1 3 (2 ^ 100 / 3) (2 ^ 100) = false.
Proof.
  split.
  - unfold mpf_wf. cbn [fM fn fexp]. pose proof B_pos as HB.
    split; [intros H; lia|]. split; [|lia].
    intros _. split; [vm_compute; reflexivity | lia].
  - split; [vm_compute; reflexivity|].
    split; vm_compute; reflexivity.
Qed.
