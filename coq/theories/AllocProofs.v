(* AllocProofs.v — C04: proofs about the allocation state machine of AllocDefs.v.
   step_exact_sizes, run_alloc_independent, realloc2_neutral, C04_example are proved as first
   stated.  Without side conditions run_pool_ok, run_balance and the net half of run_no_leak are
   FALSE for the model as defined (refutations run_pool_ok_false, run_balance_false,
   run_no_leak_false below); run_pool_ok, run_balance, run_no_leak are therefore proved under the
   side conditions Forall op_ok ops / Forall (op_inb (length p)) ops. *)
From Coq Require Import ZArith List Lia Bool.
From Mpir Require Import AllocDefs.
Import ListNotations.
Local Open Scope Z_scope.

(* ---- side conditions (candidates for AllocDefs.v) ---- *)
(* the unsigned-long argument of set_ui / add_ui / sub_ui is one limb *)
(* ================= nl ================= *)
Lemma nl_0 : nl 0 = 0.
Proof. reflexivity. Qed.

Lemma nl_nonneg v : 0 <= nl v.
Proof.
  unfold nl. destruct (v =? 0); [lia|].
  pose proof (Z.log2_nonneg (Z.abs v)) as HL.
  assert (H : 0 <= Z.log2 (Z.abs v) / 64) by (apply Z.div_pos; lia). lia.
Qed.

Lemma nl_zero_iff v : nl v = 0 <-> v = 0.
Proof.
  unfold nl. destruct (Z.eqb_spec v 0) as [E|E]; [tauto|].
  split; [|contradiction]. intros H.
  pose proof (Z.log2_nonneg (Z.abs v)) as HL.
  assert (H0 : 0 <= Z.log2 (Z.abs v) / 64) by (apply Z.div_pos; lia). lia.
Qed.

Lemma nl_upper v : Z.abs v < 2 ^ (64 * nl v).
Proof.
  unfold nl. destruct (Z.eqb_spec v 0) as [E|E].
  - subst v. cbn. lia.
  - apply Z.log2_lt_pow2; [lia|].
    set (L := Z.log2 (Z.abs v)).
    pose proof (Z.div_mod L 64 ltac:(lia)) as HD.
    pose proof (Z.mod_pos_bound L 64 ltac:(lia)) as HM. lia.
Qed.

Lemma nl_le v k : 0 <= k -> Z.abs v < 2 ^ (64 * k) -> nl v <= k.
Proof.
  intros Hk H. unfold nl. destruct (Z.eqb_spec v 0) as [E|E]; [lia|].
  apply Z.log2_lt_pow2 in H; [|lia].
  assert (H1 : Z.log2 (Z.abs v) / 64 < k) by (apply Z.div_lt_upper_bound; lia). lia.
Qed.

Lemma nl_opp v : nl (- v) = nl v.
Proof.
  unfold nl. rewrite Z.abs_opp.
  destruct (Z.eqb_spec (- v) 0) as [E|E], (Z.eqb_spec v 0) as [F|F]; try reflexivity; lia.
Qed.

Lemma nl_abs v : nl (Z.abs v) = nl v.
Proof.
  unfold nl. rewrite Z.abs_involutive.
  destruct (Z.eqb_spec (Z.abs v) 0) as [E|E], (Z.eqb_spec v 0) as [F|F]; try reflexivity; lia.
Qed.

Lemma pow64_ge2 : 2 <= 2 ^ 64.
Proof. intro H. vm_compute in H. discriminate H. Qed.

Lemma nl_add u v : nl (u + v) <= Z.max (nl u) (nl v) + 1.
Proof.
  pose proof (nl_nonneg u) as Hu. pose proof (nl_nonneg v) as Hv.
  apply nl_le; [lia|].
  pose proof (nl_upper u) as Uu. pose proof (nl_upper v) as Uv.
  set (m := Z.max (nl u) (nl v)).
  assert (Hmu : 2 ^ (64 * nl u) <= 2 ^ (64 * m)) by (apply Z.pow_le_mono_r; lia).
  assert (Hmv : 2 ^ (64 * nl v) <= 2 ^ (64 * m)) by (apply Z.pow_le_mono_r; lia).
  replace (64 * (m + 1)) with (64 * m + 64) by lia.
  rewrite Z.pow_add_r by lia.
  pose proof pow64_ge2 as H64.
  set (P := 2 ^ (64 * m)) in *. set (c := 2 ^ 64) in *.
  assert (HP : 0 < P) by lia.
  assert (H2 : 2 * P <= P * c) by nia.
  lia.
Qed.

Lemma nl_sub u v : nl (u - v) <= Z.max (nl u) (nl v) + 1.
Proof.
  replace (u - v) with (u + - v) by lia. rewrite <- (nl_opp v). apply nl_add.
Qed.

Lemma nl_mul u v : nl (u * v) <= nl u + nl v.
Proof.
  pose proof (nl_nonneg u) as Hu. pose proof (nl_nonneg v) as Hv.
  apply nl_le; [lia|].
  rewrite Z.abs_mul, Z.mul_add_distr_l, Z.pow_add_r by lia.
  apply Z.mul_lt_mono_nonneg; try apply nl_upper; lia.
Qed.

Lemma nl_small v : 0 <= v < 2 ^ 64 -> nl v <= 1.
Proof.
  intros H. apply nl_le; [lia|]. change (64 * 1) with 64. lia.
Qed.

Lemma nl_add_small u v : 0 <= v < 2 ^ 64 -> nl (u + v) <= nl u + 1.
Proof.
  intros H. pose proof (nl_small v H) as Hs. pose proof (nl_add u v) as Ha.
  pose proof (nl_nonneg u) as Hu.
  destruct (Z.eq_dec (nl u) 0) as [E|E].
  - pose proof (proj1 (nl_zero_iff u) E) as E0. rewrite E0. rewrite nl_0.
    replace (0 + v) with v by lia. lia.
  - lia.
Qed.

Lemma nl_sub_small u v : 0 <= v < 2 ^ 64 -> nl (u - v) <= nl u + 1.
Proof.
  intros H. pose proof (nl_small v H) as Hs. pose proof (nl_sub u v) as Ha.
  pose proof (nl_nonneg u) as Hu.
  destruct (Z.eq_dec (nl u) 0) as [E|E].
  - pose proof (proj1 (nl_zero_iff u) E) as E0. rewrite E0. rewrite nl_0.
    replace (0 - v) with (- v) by lia. rewrite nl_opp. lia.
  - lia.
Qed.

Lemma nl_shift u c : nl (u * 2 ^ c) <= Z.max (nl u + c / 64 + 1) 0.
Proof.
  destruct (Z.lt_ge_cases c 0) as [Hc|Hc].
  - rewrite Z.pow_neg_r by lia. rewrite Z.mul_0_r, nl_0. lia.
  - pose proof (nl_nonneg u) as Hu.
    assert (Hq : 0 <= c / 64) by (apply Z.div_pos; lia).
    rewrite Z.max_l by lia.
    apply nl_le; [lia|].
    assert (Hp : 0 < 2 ^ c) by (apply Z.pow_pos_nonneg; lia).
    rewrite Z.abs_mul, (Z.abs_eq (2 ^ c)) by lia.
    replace (64 * (nl u + c / 64 + 1)) with (64 * nl u + 64 * (c / 64 + 1)) by lia.
    rewrite Z.pow_add_r by lia.
    pose proof (nl_upper u) as Uu.
    assert (Hle : 2 ^ c <= 2 ^ (64 * (c / 64 + 1))).
    { apply Z.pow_le_mono_r; [lia|].
      pose proof (Z.div_mod c 64 ltac:(lia)) as HD.
      pose proof (Z.mod_pos_bound c 64 ltac:(lia)) as HM. lia. }
    set (A := 2 ^ (64 * nl u)) in *. set (B := 2 ^ (64 * (c / 64 + 1))) in *.
    set (x := Z.abs u) in *. set (y := 2 ^ c) in *.
    assert (Hx : 0 <= x) by (unfold x; lia).
    assert (H1 : x * y <= x * B) by (apply Z.mul_le_mono_nonneg_l; lia).
    assert (H2 : x * B < A * B) by (apply Z.mul_lt_mono_pos_r; lia).
    lia.
Qed.

(* ================= getv / setv ================= *)
Definition osz (x : option zobj) : Z := match x with Some o => 8 * zalloc o | None => 0 end.
Definition oopt_ok (x : option zobj) : Prop := match x with Some o => obj_ok o | None => True end.
Definition optv (x : option zobj) : option Z := match x with Some o => Some (zval o) | None => None end.

Lemma getv_lt p i ob : getv p i = Some ob -> (i < length p)%nat.
Proof.
  unfold getv. intros H. destruct (Nat.lt_ge_cases i (length p)) as [L|L]; [exact L|].
  rewrite nth_overflow in H by exact L. discriminate H.
Qed.

Lemma getv_oob p i : (length p <= i)%nat -> getv p i = None.
Proof. intros H. unfold getv. apply nth_overflow. exact H. Qed.

Lemma setv_length : forall p i x, length (setv p i x) = length p.
Proof.
  induction p as [|a p IH]; intros [|i] x; simpl; try reflexivity. rewrite IH. reflexivity.
Qed.

Lemma getv_setv_same : forall p i x, (i < length p)%nat -> getv (setv p i x) i = x.
Proof.
  unfold getv. induction p as [|a p IH]; intros [|i] x H; simpl in *; try lia; try reflexivity.
  apply IH. lia.
Qed.

Lemma getv_setv_other : forall p i j x, i <> j -> getv (setv p i x) j = getv p j.
Proof.
  unfold getv. induction p as [|a p IH]; intros [|i] [|j] x H; simpl; try reflexivity; try congruence.
  apply IH. congruence.
Qed.

Lemma setv_oob : forall p i x, (length p <= i)%nat -> setv p i x = p.
Proof.
  induction p as [|a p IH]; intros [|i] x H; simpl in *; try reflexivity; try lia.
  f_equal. apply IH. lia.
Qed.

Lemma held_cons x p : held (x :: p) = osz x + held p.
Proof. destruct x as [o|]; simpl; lia. Qed.

Lemma held_setv : forall p i x, (i < length p)%nat ->
  held (setv p i x) = held p - osz (getv p i) + osz x.
Proof.
  induction p as [|a p IH]; intros [|i] x H; simpl in H; try lia.
  - change (setv (a :: p) 0 x) with (x :: p). change (getv (a :: p) 0) with a.
    rewrite !held_cons. lia.
  - change (setv (a :: p) (S i) x) with (a :: setv p i x).
    change (getv (a :: p) (S i)) with (getv p i).
    rewrite !held_cons, IH by lia. lia.
Qed.

Lemma held_all_none : forall p, (forall j, getv p j = None) -> held p = 0.
Proof.
  induction p as [|a p IH]; intros H; [reflexivity|].
  rewrite held_cons. pose proof (H 0%nat) as H0. change (getv (a :: p) 0) with a in H0. subst a.
  rewrite IH; [reflexivity|]. intros j. exact (H (S j)).
Qed.

Lemma getv_repeat_none : forall n j, getv (repeat None n) j = None.
Proof.
  unfold getv. induction n as [|n IH]; intros [|j]; simpl; try reflexivity. apply IH.
Qed.

Lemma held_repeat_none n : held (repeat None n) = 0.
Proof. apply held_all_none. apply getv_repeat_none. Qed.

Lemma pool_ok_repeat_none n : pool_ok (repeat None n).
Proof. unfold pool_ok. induction n as [|n IH]; simpl; constructor; [exact I|exact IH]. Qed.

Lemma pool_ok_getv p i ob : pool_ok p -> getv p i = Some ob -> obj_ok ob.
Proof.
  intros Hp H. unfold pool_ok in Hp. rewrite Forall_forall in Hp.
  apply (Hp (Some ob)). rewrite <- H. unfold getv. apply nth_In. eapply getv_lt. exact H.
Qed.

Lemma pool_ok_setv : forall p i x, pool_ok p -> oopt_ok x -> pool_ok (setv p i x).
Proof.
  unfold pool_ok. induction p as [|a p IH]; intros [|i] x Hp Hx; simpl; try exact Hp.
  - inversion Hp as [|a' p' Ha Hp']; subst. constructor; [exact Hx|exact Hp'].
  - inversion Hp as [|a' p' Ha Hp']; subst. constructor; [exact Ha|]. apply IH; assumption.
Qed.

Lemma vals_getv p p' i : vals p = vals p' -> optv (getv p i) = optv (getv p' i).
Proof.
  intros H. unfold getv.
  rewrite <- (map_nth optv p None i), <- (map_nth optv p' None i).
  change (map optv p) with (vals p). change (map optv p') with (vals p'). rewrite H. reflexivity.
Qed.

Lemma vals_setv : forall p p' i x x', vals p = vals p' -> optv x = optv x' ->
  vals (setv p i x) = vals (setv p' i x').
Proof.
  induction p as [|a p IH]; intros [|b p'] i x x' H Hx; simpl in H; try discriminate H.
  - reflexivity.
  - injection H as H1 H2. destruct i as [|i]; simpl.
    + f_equal; [exact Hx|exact H2].
    + f_equal; [exact H1|]. apply IH; assumption.
Qed.

Lemma vals_setv_same p i ob x : getv p i = Some ob -> optv x = Some (zval ob) ->
  vals (setv p i x) = vals p.
Proof.
  revert i. induction p as [|a p IH]; intros [|i] H Hx; simpl; try reflexivity.
  - change (getv (a :: p) 0) with a in H. subst a. simpl.
    f_equal. exact Hx.
  - f_equal. apply IH; assumption.
Qed.

(* ================= write ================= *)
Lemma write_none p w need val : getv p w = None -> write p w need val = (p, []).
Proof. intros H. unfold write. rewrite H. reflexivity. Qed.

Lemma write_some p w need val ow : getv p w = Some ow ->
  exists a ev, write p w need val = (setv p w (Some (mkobj a val)), ev)
    /\ zalloc ow <= a /\ need <= a
    /\ ((ev = [] /\ a = zalloc ow) \/ (ev = [ERealloc (8 * zalloc ow) (8 * a)] /\ 1 <= a)).
Proof.
  intros H. unfold write. rewrite H. unfold ensure.
  destruct (Z.ltb_spec (zalloc ow) need) as [L|L].
  - exists (Z.max need 1), [ERealloc (8 * zalloc ow) (8 * Z.max need 1)].
    split; [reflexivity|]. split; [lia|]. split; [lia|]. right. split; [reflexivity|lia].
  - exists (zalloc ow), []. split; [reflexivity|]. split; [lia|]. split; [lia|]. left. split; reflexivity.
Qed.

Lemma write_vals p p' w n n' v : vals p = vals p' ->
  vals (fst (write p w n v)) = vals (fst (write p' w n' v)).
Proof.
  intros Hv. pose proof (vals_getv p p' w Hv) as Hz.
  destruct (getv p w) as [ob|] eqn:E; destruct (getv p' w) as [ob'|] eqn:E'; simpl in Hz;
    try discriminate Hz.
  - destruct (write_some p w n v ob E) as (a & ev & -> & _).
    destruct (write_some p' w n' v ob' E') as (a' & ev' & -> & _).
    cbn [fst]. apply vals_setv; [exact Hv|reflexivity].
  - rewrite (write_none p w n v E), (write_none p' w n' v E'). exact Hv.
Qed.

(* ================= the shape of a step ================= *)
(* [ok]: the scalar side condition of the operation; [inb]: its init index is a pool slot *)
Inductive shape (ok inb : Prop) (p : pool) : pool * list event -> Prop :=
| sh_id : shape ok inb p (p, [])
| sh_init i l : getv p i = None -> 1 <= l -> (inb -> (i < length p)%nat) ->
    shape ok inb p (setv p i (Some (mkobj l 0)), [EAlloc (8 * l)])
| sh_clear i ob : getv p i = Some ob -> shape ok inb p (setv p i None, [EFree (8 * zalloc ob)])
| sh_set i ob a val ev : getv p i = Some ob ->
    ((ev = [] /\ a = zalloc ob)
     \/ (ev = [ERealloc (8 * zalloc ob) (8 * a)] /\ 1 <= a)
     \/ (2 <= a /\ (ev = [EAlloc (8 * a); EFree (8 * zalloc ob)]
                   \/ ev = [EFree (8 * zalloc ob); EAlloc (8 * a)]))) ->
    (ok -> pool_ok p -> nl val <= a) ->
    shape ok inb p (setv p i (Some (mkobj a val)), ev)
| sh_swap a b oa ob : getv p a = Some oa -> getv p b = Some ob ->
    shape ok inb p (setv (setv p a (Some ob)) b (Some oa), []).

Lemma shape_write (ok inb : Prop) p w need val ow : getv p w = Some ow ->
  (ok -> obj_ok ow -> nl val <= Z.max need (zalloc ow)) ->
  shape ok inb p (write p w need val).
Proof.
  intros Hw Hn. destruct (write_some p w need val ow Hw) as (a & ev & -> & Ha1 & Ha2 & Hev).
  apply (sh_set ok inb p w ow a val ev Hw).
  - destruct Hev as [Hev|Hev]; [left; exact Hev|right; left; exact Hev].
  - intros Hok Hp. pose proof (Hn Hok (pool_ok_getv p w ow Hp Hw)) as Hn'. lia.
Qed.

Lemma step_shape kara p o : shape (op_ok o) (op_inb (length p) o) p (step kara p o).
Proof.
  destruct o as [i|i bits|i|i bits|w u|w v|w u|w u|a b|w u v|w u v|w u v|w u v|w u cnt|w u v];
    unfold step.
  - (* OInit *)
    destruct (getv p i) as [ob|] eqn:Hi; [apply sh_id|].
    apply (sh_init _ _ p i 1 Hi); [lia|]. intros H. exact H.
  - (* OInit2 *)
    destruct (getv p i) as [ob|] eqn:Hi; [apply sh_id|].
    cbv zeta. apply (sh_init _ _ p i _ Hi); [lia|]. intros H. exact H.
  - (* OClear *)
    destruct (getv p i) as [ob|] eqn:Hi; [|apply sh_id].
    apply (sh_clear _ _ p i ob Hi).
  - (* ORealloc2 *)
    destruct (getv p i) as [ob|] eqn:Hi; [|apply sh_id].
    unfold do_realloc. cbv zeta.
    apply (sh_set _ _ p i ob _ _ _ Hi).
    + right. left. split; [reflexivity|lia].
    + intros _ _. destruct (Z.ltb_spec (Z.max ((bits + 63) / 64) 1) (nl (zval ob))) as [L|L].
      * rewrite nl_0. lia.
      * exact L.
  - (* OSet *)
    destruct (getv p w) as [ow|] eqn:Hw; [|apply sh_id].
    destruct (getv p u) as [ou|] eqn:Hu; [|apply sh_id].
    apply (shape_write _ _ p w _ _ ow Hw). intros _ _. lia.
  - (* OSetUi *)
    destruct (getv p w) as [ow|] eqn:Hw; [|apply sh_id].
    apply (shape_write _ _ p w _ _ ow Hw). intros Hok [Ho1 Ho2].
    pose proof (nl_small v Hok) as Hs. lia.
  - (* ONeg *)
    destruct (getv p w) as [ow|] eqn:Hw; [|apply sh_id].
    destruct (getv p u) as [ou|] eqn:Hu; [|apply sh_id].
    destruct (Nat.eqb_spec w u) as [E|E].
    + subst u. rewrite Hw in Hu. injection Hu as Hu. subst ou.
      apply (shape_write _ _ p w _ _ ow Hw). intros _ [Ho1 Ho2]. rewrite nl_opp. lia.
    + apply (shape_write _ _ p w _ _ ow Hw). intros _ _. rewrite nl_opp. lia.
  - (* OAbs *)
    destruct (getv p w) as [ow|] eqn:Hw; [|apply sh_id].
    destruct (getv p u) as [ou|] eqn:Hu; [|apply sh_id].
    destruct (Nat.eqb_spec w u) as [E|E].
    + subst u. rewrite Hw in Hu. injection Hu as Hu. subst ou.
      apply (shape_write _ _ p w _ _ ow Hw). intros _ [Ho1 Ho2]. rewrite nl_abs. lia.
    + apply (shape_write _ _ p w _ _ ow Hw). intros _ _. rewrite nl_abs. lia.
  - (* OSwap *)
    destruct (getv p a) as [oa|] eqn:Ha; [|apply sh_id].
    destruct (getv p b) as [ob|] eqn:Hb; [|apply sh_id].
    apply (sh_swap _ _ p a b oa ob Ha Hb).
  - (* OAdd *)
    destruct (getv p w) as [ow|] eqn:Hw; [|apply sh_id].
    destruct (getv p u) as [ou|] eqn:Hu; [|apply sh_id].
    destruct (getv p v) as [ov|] eqn:Hv; [|apply sh_id].
    apply (shape_write _ _ p w _ _ ow Hw). intros _ _.
    pose proof (nl_add (zval ou) (zval ov)) as Hn. lia.
  - (* OSub *)
    destruct (getv p w) as [ow|] eqn:Hw; [|apply sh_id].
    destruct (getv p u) as [ou|] eqn:Hu; [|apply sh_id].
    destruct (getv p v) as [ov|] eqn:Hv; [|apply sh_id].
    apply (shape_write _ _ p w _ _ ow Hw). intros _ _.
    pose proof (nl_sub (zval ou) (zval ov)) as Hn. lia.
  - (* OAddUi *)
    destruct (getv p w) as [ow|] eqn:Hw; [|apply sh_id].
    destruct (getv p u) as [ou|] eqn:Hu; [|apply sh_id].
    apply (shape_write _ _ p w _ _ ow Hw). intros Hok _.
    pose proof (nl_add_small (zval ou) v Hok) as Hn. lia.
  - (* OSubUi *)
    destruct (getv p w) as [ow|] eqn:Hw; [|apply sh_id].
    destruct (getv p u) as [ou|] eqn:Hu; [|apply sh_id].
    apply (shape_write _ _ p w _ _ ow Hw). intros Hok _.
    pose proof (nl_sub_small (zval ou) v Hok) as Hn. lia.
  - (* OMul2exp *)
    destruct (getv p w) as [ow|] eqn:Hw; [|apply sh_id].
    destruct (getv p u) as [ou|] eqn:Hu; [|apply sh_id].
    destruct (zval ou =? 0).
    + apply (shape_write _ _ p w _ _ ow Hw). intros _ [Ho1 Ho2]. rewrite nl_0. lia.
    + apply (shape_write _ _ p w _ _ ow Hw). intros _ [Ho1 Ho2].
      pose proof (nl_shift (zval ou) cnt) as Hn. lia.
  - (* OMul *)
    destruct (getv p w) as [ow|] eqn:Hw; [|apply sh_id].
    destruct (getv p u) as [ou|] eqn:Hu; [|apply sh_id].
    destruct (getv p v) as [ov|] eqn:Hv; [|apply sh_id].
    cbv zeta.
    pose proof (nl_nonneg (zval ou)) as Hun. pose proof (nl_nonneg (zval ov)) as Hvn.
    pose proof (nl_mul (zval ou) (zval ov)) as Hm.
    set (un := nl (zval ou)) in *. set (vn := nl (zval ov)) in *.
    destruct ((un =? 0) || (vn =? 0)) eqn:Hz.
    { apply (shape_write _ _ p w _ _ ow Hw). intros _ [Ho1 Ho2]. rewrite nl_0. lia. }
    apply orb_false_iff in Hz. destruct Hz as [Hz1 Hz2].
    apply Z.eqb_neq in Hz1. apply Z.eqb_neq in Hz2.
    destruct (Z.eqb_spec vn 1) as [H1|H1].
    { apply (shape_write _ _ p w _ _ ow Hw). intros _ _. lia. }
    destruct ((un + vn <=? kara) && negb (Nat.eqb w u) && negb (Nat.eqb w v)).
    { apply (shape_write _ _ p w _ _ ow Hw). intros _ _. lia. }
    destruct (Z.ltb_spec (zalloc ow) (un + vn)) as [L|L].
    + destruct (Nat.eqb w u || Nat.eqb w v).
      * apply (sh_set _ _ p w ow _ _ _ Hw).
        -- right. right. split; [lia|]. left. reflexivity.
        -- intros _ _. exact Hm.
      * apply (sh_set _ _ p w ow _ _ _ Hw).
        -- right. right. split; [lia|]. right. reflexivity.
        -- intros _ _. exact Hm.
    + apply (sh_set _ _ p w ow _ _ _ Hw).
      * left. split; reflexivity.
      * intros _ _. lia.
Qed.

(* ================= per-step properties ================= *)
Lemma step_length kara p o : length (fst (step kara p o)) = length p.
Proof.
  destruct (step_shape kara p o) as [|i l Hi Hl Hb|i ob Hi|i ob a val ev Hi Hev Hn|a b oa ob Ha Hb];
    cbn [fst]; rewrite ?setv_length; reflexivity.
Qed.

Lemma step_pool_ok kara p o : op_ok o -> pool_ok p -> pool_ok (fst (step kara p o)).
Proof.
  intros Hok Hp.
  destruct (step_shape kara p o) as [|i l Hi Hl Hb|i ob Hi|i ob a val ev Hi Hev Hn|a b oa ob Ha Hb];
    cbn [fst].
  - exact Hp.
  - apply pool_ok_setv; [exact Hp|]. unfold oopt_ok, obj_ok. simpl. rewrite nl_0. lia.
  - apply pool_ok_setv; [exact Hp|exact I].
  - apply pool_ok_setv; [exact Hp|]. unfold oopt_ok, obj_ok. simpl.
    pose proof (Hn Hok Hp) as Hn'. destruct (pool_ok_getv p i ob Hp Hi) as [Ho1 Ho2].
    split; [|exact Hn']. destruct Hev as [[_ E]|[[_ E]|[E _]]]; lia.
  - apply pool_ok_setv; [apply pool_ok_setv; [exact Hp|]|].
    + exact (pool_ok_getv p b ob Hp Hb).
    + exact (pool_ok_getv p a oa Hp Ha).
Qed.

Lemma step_exact_sizes : forall kara p o e, pool_ok p -> In e (snd (step kara p o)) ->
  match e with
  | ERealloc old _ => exists i ob, getv p i = Some ob /\ old = 8 * zalloc ob
  | EFree b => exists i ob, getv p i = Some ob /\ b = 8 * zalloc ob
  | EAlloc b => 8 <= b
  end.
Proof.
  intros kara p o e _ Hin.
  destruct (step_shape kara p o) as [|i l Hi Hl Hb|i ob Hi|i ob a val ev Hi Hev Hn|a b oa ob Ha Hb];
    cbn [snd] in Hin.
  - destruct Hin.
  - destruct Hin as [<-|[]]. lia.
  - destruct Hin as [<-|[]]. exists i, ob. split; [exact Hi|reflexivity].
  - destruct Hev as [[-> _]|[[-> _]|[Ha [->| ->]]]].
    + destruct Hin.
    + destruct Hin as [<-|[]]. exists i, ob. split; [exact Hi|reflexivity].
    + destruct Hin as [<-|[<-|[]]]; [lia|]. exists i, ob. split; [exact Hi|reflexivity].
    + destruct Hin as [<-|[<-|[]]]; [|lia]. exists i, ob. split; [exact Hi|reflexivity].
  - destruct Hin.
Qed.

Lemma step_balance kara p o : op_inb (length p) o ->
  held (fst (step kara p o)) = held p + net (snd (step kara p o)).
Proof.
  intros Hinb.
  destruct (step_shape kara p o) as [|i l Hi Hl Hb|i ob Hi|i ob a val ev Hi Hev Hn|a b oa ob Ha Hb];
    cbn [fst]; cbn [snd].
  - simpl. lia.
  - rewrite held_setv by (apply Hb; exact Hinb). rewrite Hi. simpl. lia.
  - rewrite held_setv by (eapply getv_lt; exact Hi). rewrite Hi. simpl. lia.
  - rewrite held_setv by (eapply getv_lt; exact Hi). rewrite Hi.
    destruct Hev as [[-> ->]|[[-> _]|[_ [->| ->]]]]; simpl; lia.
  - pose proof (getv_lt p a oa Ha) as La. pose proof (getv_lt p b ob Hb) as Lb.
    rewrite held_setv by (rewrite setv_length; exact Lb).
    rewrite held_setv by exact La. rewrite Ha.
    assert (Hgb : getv (setv p a (Some ob)) b = Some ob).
    { destruct (Nat.eq_dec a b) as [E|E].
      - subst b. apply getv_setv_same. exact La.
      - rewrite getv_setv_other by exact E. exact Hb. }
    rewrite Hgb. simpl. lia.
Qed.

Lemma mul_none kara p w u v :
  getv p w = None \/ getv p u = None \/ getv p v = None -> step kara p (OMul w u v) = (p, []).
Proof.
  intros H. unfold step.
  destruct (getv p w) as [ow|]; [|reflexivity].
  destruct (getv p u) as [ou|]; [|reflexivity].
  destruct (getv p v) as [ov|]; [|reflexivity].
  destruct H as [H|[H|H]]; discriminate H.
Qed.

Lemma mul_fst kara p w u v ow ou ov :
  getv p w = Some ow -> getv p u = Some ou -> getv p v = Some ov ->
  exists a, fst (step kara p (OMul w u v)) = setv p w (Some (mkobj a (zval ou * zval ov))).
Proof.
  intros Hw Hu Hv. unfold step. rewrite Hw, Hu, Hv. cbv zeta.
  set (un := nl (zval ou)). set (vn := nl (zval ov)).
  destruct ((un =? 0) || (vn =? 0)) eqn:Hz.
  { assert (E : zval ou * zval ov = 0).
    { apply orb_true_iff in Hz. destruct Hz as [Hz|Hz]; apply Z.eqb_eq in Hz; unfold un, vn in Hz;
        rewrite (proj1 (nl_zero_iff _) Hz); lia. }
    rewrite E. destruct (write_some p w 0 0 ow Hw) as (a & ev & -> & _). exists a. reflexivity. }
  destruct (vn =? 1).
  { destruct (write_some p w (un + 1) (zval ou * zval ov) ow Hw) as (a & ev & -> & _).
    exists a. reflexivity. }
  destruct ((un + vn <=? kara) && negb (Nat.eqb w u) && negb (Nat.eqb w v)).
  { destruct (write_some p w (un + vn) (zval ou * zval ov) ow Hw) as (a & ev & -> & _).
    exists a. reflexivity. }
  destruct (zalloc ow <? un + vn).
  - destruct (Nat.eqb w u || Nat.eqb w v); eexists; reflexivity.
  - eexists; reflexivity.
Qed.

Ltac dboth Hv i ob ob' E E' Hz :=
  match type of Hv with
  | vals ?p = vals ?p' =>
      pose proof (vals_getv p p' i Hv) as Hz;
      destruct (getv p i) as [ob|] eqn:E; destruct (getv p' i) as [ob'|] eqn:E'; simpl in Hz;
      try discriminate Hz; [injection Hz as Hz|clear Hz; try exact Hv]
  end.

Lemma step_vals kara p p' o : vals p = vals p' ->
  vals (fst (step kara p o)) = vals (fst (step kara p' o)).
Proof.
  intros Hv.
  destruct o as [i|i bits|i|i bits|w u|w v|w u|w u|a b|w u v|w u v|w u v|w u v|w u cnt|w u v].
  - (* OInit *) unfold step.
    pose proof (vals_getv p p' i Hv) as Hz.
    destruct (getv p i) as [ob|] eqn:E; destruct (getv p' i) as [ob'|] eqn:E'; simpl in Hz;
      try discriminate Hz; [exact Hv|].
    cbn [fst]. apply vals_setv; [exact Hv|reflexivity].
  - (* OInit2 *) unfold step.
    pose proof (vals_getv p p' i Hv) as Hz.
    destruct (getv p i) as [ob|] eqn:E; destruct (getv p' i) as [ob'|] eqn:E'; simpl in Hz;
      try discriminate Hz; [exact Hv|].
    cbn [fst]. apply vals_setv; [exact Hv|reflexivity].
  - (* OClear *) unfold step. dboth Hv i ob ob' E E' Hz.
    cbn [fst]. apply vals_setv; [exact Hv|reflexivity].
  - (* ORealloc2 *) unfold step. dboth Hv i ob ob' E E' Hz.
    unfold do_realloc. cbn [fst]. apply vals_setv; [exact Hv|]. simpl. rewrite Hz. reflexivity.
  - (* OSet *) unfold step.
    dboth Hv w ow ow' Ew Ew' Hzw. dboth Hv u ou ou' Eu Eu' Hzu.
    rewrite Hzu. apply write_vals. exact Hv.
  - (* OSetUi *) unfold step.
    dboth Hv w ow ow' Ew Ew' Hzw. apply write_vals. exact Hv.
  - (* ONeg *) unfold step.
    dboth Hv w ow ow' Ew Ew' Hzw. dboth Hv u ou ou' Eu Eu' Hzu.
    rewrite Hzu. destruct (Nat.eqb w u); apply write_vals; exact Hv.
  - (* OAbs *) unfold step.
    dboth Hv w ow ow' Ew Ew' Hzw. dboth Hv u ou ou' Eu Eu' Hzu.
    rewrite Hzu. destruct (Nat.eqb w u); apply write_vals; exact Hv.
  - (* OSwap *) unfold step.
    dboth Hv a oa oa' Ea Ea' Hza. dboth Hv b ob ob' Eb Eb' Hzb.
    cbn [fst]. apply vals_setv; [apply vals_setv; [exact Hv|]|]; simpl; f_equal; assumption.
  - (* OAdd *) unfold step.
    dboth Hv w ow ow' Ew Ew' Hzw. dboth Hv u ou ou' Eu Eu' Hzu. dboth Hv v ov ov' Ev Ev' Hzv.
    rewrite Hzu, Hzv. apply write_vals. exact Hv.
  - (* OSub *) unfold step.
    dboth Hv w ow ow' Ew Ew' Hzw. dboth Hv u ou ou' Eu Eu' Hzu. dboth Hv v ov ov' Ev Ev' Hzv.
    rewrite Hzu, Hzv. apply write_vals. exact Hv.
  - (* OAddUi *) unfold step.
    dboth Hv w ow ow' Ew Ew' Hzw. dboth Hv u ou ou' Eu Eu' Hzu.
    rewrite Hzu. apply write_vals. exact Hv.
  - (* OSubUi *) unfold step.
    dboth Hv w ow ow' Ew Ew' Hzw. dboth Hv u ou ou' Eu Eu' Hzu.
    rewrite Hzu. apply write_vals. exact Hv.
  - (* OMul2exp *) unfold step.
    dboth Hv w ow ow' Ew Ew' Hzw. dboth Hv u ou ou' Eu Eu' Hzu.
    rewrite Hzu. destruct (zval ou' =? 0); apply write_vals; exact Hv.
  - (* OMul *)
    pose proof (vals_getv p p' w Hv) as Hzw.
    pose proof (vals_getv p p' u Hv) as Hzu.
    pose proof (vals_getv p p' v Hv) as Hzv.
    destruct (getv p w) as [ow|] eqn:Ew; destruct (getv p' w) as [ow'|] eqn:Ew'; simpl in Hzw;
      try discriminate Hzw;
      [|rewrite (mul_none kara p w u v), (mul_none kara p' w u v) by (left; assumption); exact Hv].
    destruct (getv p u) as [ou|] eqn:Eu; destruct (getv p' u) as [ou'|] eqn:Eu'; simpl in Hzu;
      try discriminate Hzu;
      [|rewrite (mul_none kara p w u v), (mul_none kara p' w u v) by (right; left; assumption);
        exact Hv].
    destruct (getv p v) as [ov|] eqn:Ev; destruct (getv p' v) as [ov'|] eqn:Ev'; simpl in Hzv;
      try discriminate Hzv;
      [|rewrite (mul_none kara p w u v), (mul_none kara p' w u v) by (right; right; assumption);
        exact Hv].
    injection Hzu as Hzu. injection Hzv as Hzv.
    destruct (mul_fst kara p w u v ow ou ov Ew Eu Ev) as (a & ->).
    destruct (mul_fst kara p' w u v ow' ou' ov' Ew' Eu' Ev') as (a' & ->).
    apply vals_setv; [exact Hv|]. simpl. rewrite Hzu, Hzv. reflexivity.
Qed.

(* ================= runs ================= *)
Lemma run_nil kara p : run kara p [] = (p, []).
Proof. reflexivity. Qed.

Lemma run_cons kara p o r :
  run kara p (o :: r) = (fst (run kara (fst (step kara p o)) r),
                         snd (step kara p o) ++ snd (run kara (fst (step kara p o)) r)).
Proof.
  change (run kara p (o :: r))
    with (let '(p1, e1) := step kara p o in let '(p2, e2) := run kara p1 r in (p2, e1 ++ e2)).
  destruct (step kara p o) as [p1 e1]. cbn [fst]. cbn [snd].
  destruct (run kara p1 r) as [p2 e2]. reflexivity.
Qed.

Lemma run_app kara : forall a p b,
  run kara p (a ++ b) = (fst (run kara (fst (run kara p a)) b),
                         snd (run kara p a) ++ snd (run kara (fst (run kara p a)) b)).
Proof.
  induction a as [|o a IH]; intros p b.
  - rewrite run_nil. simpl. destruct (run kara p b) as [p2 e2]. reflexivity.
  - rewrite <- app_comm_cons, !run_cons, IH. cbn [fst]. cbn [snd]. rewrite app_assoc. reflexivity.
Qed.

Lemma net_app : forall e1 e2, net (e1 ++ e2) = net e1 + net e2.
Proof.
  induction e1 as [|e e1 IH]; intros e2; [reflexivity|].
  simpl. rewrite IH. destruct e; lia.
Qed.

Lemma run_length kara : forall ops p, length (fst (run kara p ops)) = length p.
Proof.
  induction ops as [|o r IH]; intros p; [reflexivity|].
  rewrite run_cons. cbn [fst]. rewrite IH. apply step_length.
Qed.

Lemma run_pool_ok : forall kara ops p, Forall op_ok ops -> pool_ok p ->
  pool_ok (fst (run kara p ops)).
Proof.
  intros kara. induction ops as [|o r IH]; intros p Hops Hp; [exact Hp|].
  inversion Hops as [|o' r' Ho Hr]; subst.
  rewrite run_cons. cbn [fst]. apply IH; [exact Hr|]. apply step_pool_ok; assumption.
Qed.

(* the balance needs no well-formedness at all, only that init names a pool slot *)
Lemma run_balance : forall kara ops p, Forall (op_inb (length p)) ops ->
  held (fst (run kara p ops)) = held p + net (snd (run kara p ops)).
Proof.
  intros kara. induction ops as [|o r IH]; intros p Hops; [simpl; lia|].
  inversion Hops as [|o' r' Ho Hr]; subst.
  rewrite run_cons. cbn [fst]. cbn [snd]. rewrite net_app.
  rewrite IH by (rewrite step_length; exact Hr).
  rewrite step_balance by exact Ho. lia.
Qed.

Lemma step_clear_getv kara p k j :
  getv (fst (step kara p (OClear k))) j = if Nat.eqb j k then None else getv p j.
Proof.
  unfold step. destruct (getv p k) as [ob|] eqn:E; cbn [fst];
    destruct (Nat.eqb_spec j k) as [F|F].
  - subst j. apply getv_setv_same. eapply getv_lt. exact E.
  - apply getv_setv_other. congruence.
  - subst j. exact E.
  - reflexivity.
Qed.

Lemma clear_run kara : forall m k p, length p = (k + m)%nat ->
  (forall j, (j < k)%nat -> getv p j = None) ->
  forall j, getv (fst (run kara p (map OClear (seq k m)))) j = None.
Proof.
  induction m as [|m IH]; intros k p HL Hpre j.
  - simpl. destruct (Nat.lt_ge_cases j k) as [L|L]; [apply Hpre; exact L|].
    apply getv_oob. lia.
  - simpl seq. simpl map. rewrite run_cons. cbn [fst]. apply IH.
    + rewrite step_length. lia.
    + intros j' Hj'. rewrite step_clear_getv.
      destruct (Nat.eqb_spec j' k) as [F|F]; [reflexivity|]. apply Hpre. lia.
Qed.

Lemma clear_all_held kara p : held (fst (run kara p (clear_all (length p)))) = 0.
Proof.
  apply held_all_none. unfold clear_all. apply clear_run; [reflexivity|].
  intros j Hj. lia.
Qed.

(* the held half of the no-leak statement holds for every operation sequence *)
Lemma run_no_leak_held : forall kara n ops,
  held (fst (run kara (repeat None n) (ops ++ clear_all n))) = 0.
Proof.
  intros kara n ops. rewrite run_app. cbn [fst].
  assert (HL : length (fst (run kara (repeat None n) ops)) = n)
    by (rewrite run_length; apply repeat_length).
  rewrite <- HL at 2. apply clear_all_held.
Qed.

Lemma op_inb_clear_all n m : Forall (op_inb n) (clear_all m).
Proof.
  unfold clear_all. apply Forall_forall. intros o Hin. apply in_map_iff in Hin.
  destruct Hin as (i & <- & _). exact I.
Qed.

Lemma run_no_leak : forall kara n ops, Forall (op_inb n) ops ->
  held (fst (run kara (repeat None n) (ops ++ clear_all n))) = 0
  /\ net (snd (run kara (repeat None n) (ops ++ clear_all n))) = 0.
Proof.
  intros kara n ops Hops. pose proof (run_no_leak_held kara n ops) as Hh.
  split; [exact Hh|].
  assert (Hall : Forall (op_inb (length (repeat (@None zobj) n))) (ops ++ clear_all n)).
  { rewrite repeat_length. apply Forall_app. split; [exact Hops|apply op_inb_clear_all]. }
  pose proof (run_balance kara (ops ++ clear_all n) (repeat None n) Hall) as Hb.
  rewrite Hh, held_repeat_none in Hb. lia.
Qed.

(* values do not depend on the allocation history (well-formedness is not even needed) *)
Lemma run_vals : forall kara ops p p', vals p = vals p' ->
  vals (fst (run kara p ops)) = vals (fst (run kara p' ops)).
Proof.
  intros kara. induction ops as [|o r IH]; intros p p' Hv; [exact Hv|].
  rewrite !run_cons. cbn [fst]. apply IH. apply step_vals. exact Hv.
Qed.

Lemma run_alloc_independent : forall kara ops p p',
  pool_ok p -> pool_ok p' -> vals p = vals p' ->
  vals (fst (run kara p ops)) = vals (fst (run kara p' ops)).
Proof. intros kara ops p p' _ _ Hv. apply run_vals. exact Hv. Qed.

Lemma realloc2_neutral : forall kara p i bits ob, pool_ok p -> getv p i = Some ob ->
  nl (zval ob) <= Z.max ((bits + 63) / 64) 1 ->
  vals (fst (step kara p (ORealloc2 i bits))) = vals p.
Proof.
  intros kara p i bits ob _ Hi Hn. unfold step. rewrite Hi. unfold do_realloc. cbn [fst].
  apply (vals_setv_same p i ob _ Hi). simpl.
  destruct (Z.ltb_spec (Z.max ((bits + 63) / 64) 1) (nl (zval ob))) as [L|L]; [lia|reflexivity].
Qed.

Lemma C04_example :
  pool_ok [Some (mkobj 1 5); None]
  /\ run 17 [Some (mkobj 1 5); None] [OMul 0 0 0; OInit 1; OMul2exp 1 0 130; OClear 0; OClear 1]
     = ([None; None], [ERealloc 8 16; EAlloc 8; ERealloc 8 32; EFree 16; EFree 32]).
Proof.
  split.
  - unfold pool_ok. constructor; [|constructor; [exact I|constructor]].
    unfold obj_ok. simpl zalloc. simpl zval. split; [lia|]. intro H. vm_compute in H. discriminate H.
  - vm_compute. reflexivity.
Qed.

(* ================= the three target statements that are false as stated ================= *)
(* mpz_set_ui (and add_ui / sub_ui) never make room for more than one limb (resp. usize+1): a
   scalar outside [0, 2^64) breaks well-formedness in the model *)
Lemma run_pool_ok_false :
  ~ (forall kara ops p, pool_ok p -> pool_ok (fst (run kara p ops))).
Proof.
  intros H.
  assert (Hp : pool_ok [Some (mkobj 1 0)]).
  { unfold pool_ok. constructor; [|constructor]. unfold obj_ok. simpl. rewrite nl_0. lia. }
  specialize (H 17 [OSetUi 0 (2 ^ 64)] [Some (mkobj 1 0)] Hp).
  assert (E : fst (run 17 [Some (mkobj 1 0)] [OSetUi 0 (2 ^ 64)]) = [Some (mkobj 1 (2 ^ 64))])
    by (vm_compute; reflexivity).
  rewrite E in H. inversion H as [|x l Hx Hl]; subst. destruct Hx as [_ Hx].
  vm_compute in Hx. apply Hx. reflexivity.
Qed.

(* mpz_init on an index outside the pool emits an allocation that no variable holds *)
Lemma run_balance_false :
  ~ (forall kara ops p, pool_ok p -> held (fst (run kara p ops)) = held p + net (snd (run kara p ops))).
Proof.
  intros H. specialize (H 17 [OInit 0] [] (Forall_nil _)). vm_compute in H. discriminate H.
Qed.

Lemma run_no_leak_false :
  ~ (forall kara n ops,
       held (fst (run kara (repeat None n) (ops ++ clear_all n))) = 0
       /\ net (snd (run kara (repeat None n) (ops ++ clear_all n))) = 0).
Proof.
  intros H. destruct (H 17 0%nat [OInit 0]) as [_ H2]. vm_compute in H2. discriminate H2.
Qed.
