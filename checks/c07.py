"""C07 — gcd, gcdext, lcm, invert, Kronecker: correspondence cases."""
import os, sys, math
from gen import *
sys.path.insert(0, os.path.join(os.path.dirname(os.path.dirname(os.path.abspath(__file__))), 'translator'))
import gen_tables
import vlib

PID = 'C07'
RULE = ('cases = function x operand pairs: consecutive Fibonacci-like pairs (all quotients 1), quotient sequences with huge partial quotients, a = b, b | a, |b| = 2g, '
        'common factors of thousands of bits, powers of two, zero, negatives, equal limb counts with tiny leading difference, sizes across the HGCD/GCD_DC/GCDEXT_DC crossovers of the '
        'regenerated table; symbols: all sign x parity x residue-mod-8 classes, even moduli with every 2-adic valuation; large operands certified by the model (g | a, g | b, a s + b t = g, '
        'cofactor bounds); non-trivial = distinct case line with both operands non-zero')
EXPLANATION = ('implementation vs extracted Coq models (GcdDefs.v): binary gcd_1, extended Euclid with the manual\'s cofactor normalisation, lcm, invert, Kronecker symbol by the '
               'binary reciprocity algorithm; Properties_C07.v proves gcd_1 = gcd, Bezout and bounds, invert existence/range, lcm, symbol range and zero criterion')
ASSUMPTIONS = ['hgcd, hgcd_appr, hgcd_reduce, Lehmer and divide-and-conquer gcdext, matrix22_mul are tied by execution only',
               'the Kronecker model is the textbook reciprocity algorithm; that it computes the symbol defined by quadratic residues rests on quadratic reciprocity (not proved here)']
TIMEOUT = 1500

def regenerate(ctx):
    ctx.thr = gen_tables.main()[0]

def nontrivial(line, tag):
    t = line.split()
    return len(t) >= 3 and t[1] != '0' and t[2] != '0'

def from_quotients(qs, g=1):
    a, b = 1, 0
    for q in reversed(qs):
        a, b = q * a + b, a
    return a * g, b * g

def pair(rng, maxbits):
    k = rng.random()
    bits = rng.randrange(2, maxbits)
    if k < 0.15:   # Fibonacci-like
        n = max(2, int(bits / 0.694)); qs = [1] * n
        return from_quotients(qs, rng.choice([1, 1, rng.getrandbits(64) | 1]))
    if k < 0.35:   # huge partial quotients mixed with small ones
        qs = []
        tot = 0
        while tot < bits:
            q = rng.choice([1, 1, 2, 3, rng.getrandbits(rng.choice([31, 32, 33, 63, 64, 65, 130])) | 1])
            qs.append(q); tot += q.bit_length()
        return from_quotients(qs, rng.choice([1, 2, 6, rng.getrandbits(rng.choice([1, 64, 200])) | 1]))
    if k < 0.45:   # huge common factor
        g = rng.getrandbits(bits) | 1
        return g * (rng.getrandbits(64) | 1), g * (rng.getrandbits(70) | 1)
    if k < 0.55:   # equal limb counts, b = 2^k + 1 style, a = b + small
        n = max(1, bits // 64); b = (1 << (64 * n - 1)) + 1
        return b + (1 << rng.randrange(0, 64 * n - 1)) + rng.getrandbits(10), b
    if k < 0.62:
        a = rng.getrandbits(bits) | 1; return a, a
    if k < 0.7:
        b = rng.getrandbits(bits // 2 + 1) | 1; return b * (rng.getrandbits(bits // 2 + 1) | 1), b
    if k < 0.76:
        g = rng.getrandbits(bits // 2 + 1) | 1; return g * (rng.getrandbits(60) | 1) , 2 * g
    if k < 0.82:
        return 1 << rng.randrange(bits), (1 << rng.randrange(bits)) * rng.choice([1, 3])
    return rng.getrandbits(bits) | 1, rng.getrandbits(rng.randrange(1, bits + 1)) | 1

def cases(ctx, tier):
    rng = ctx.rng('cases')
    quick = tier == 'quick'
    out = []
    N = 1500 if quick else 12000
    for i in range(N):
        a, b = pair(rng, 64 * rng.choice([1, 2, 3, 5, 8, 12, 20]))
        if rng.random() < 0.04: a = 0
        if rng.random() < 0.04: b = 0
        sa = rng.choice([1, -1]); sb = rng.choice([1, -1]); a *= sa; b *= sb
        out.append(('mpz_gcd %s %s %d' % (hx(a), hx(b), rng.choice([0, 0, 1, 2])), 'gcd'))
        out.append(('mpz_gcdext %s %s %d' % (hx(a), hx(b), rng.choice([0, 0, 0, 1, 2, 4, 5, 6])), 'gcdext'))
        out.append(('mpz_lcm %s %s %d' % (hx(a), hx(b), rng.choice([0, 1, 2])), 'lcm'))
        if b != 0:
            out.append(('mpz_invert %s %s %d' % (hx(a), hx(b), rng.choice([0, 0, 1, 2])), 'invert'))
            # an invertible pair with a negative modulus / negative cofactor
            x = (abs(a) | 1); m = abs(b) * 2 if abs(b) > 1 else 7
            if math.gcd(x, m) == 1:
                out.append(('mpz_invert %s %s 0' % (hx(x * sa), hx(m * sb)), 'invert-coprime'))
        v = rng.choice([0, 1, 2, 3, (1 << 64) - 1, 1 << 63, abs(b) % (1 << 64), rng.getrandbits(64)])
        out.append(('mpz_gcd_ui %s %x' % (hx(a), v), 'gcd_ui'))
        out.append(('mpz_lcm_ui %s %x' % (hx(a), v), 'lcm_ui'))
        if a != 0 and v != 0:
            n = (abs(a).bit_length() + 63) // 64
            out.append(('mpn_gcd_1 %x %s %x' % (n, hx(abs(a)), v), 'mpn_gcd_1'))
        if a != 0 and b != 0:
            x, y = abs(a), abs(b)
            y |= 1
            if x < y: x, y = y, x
            xn = (x.bit_length() + 63) // 64; yn = (y.bit_length() + 63) // 64
            out.append(('mpn_gcd %x %s %x %s' % (xn, hx(x), yn, hx(y)), 'mpn_gcd'))
        out.append(('mpz_kronecker %s %s' % (hx(a), hx(b)), 'kronecker'))
        out.append(('mpz_kronecker %s %s' % (hx(a), hx(b << rng.randrange(0, 70))), 'kronecker-even'))
        sv = rng.choice([0, 1, -1, 2, -2, 3, -3, 7, 8, -8, (1 << 63) - 1, -(1 << 63), rng.randrange(-(1 << 63), 1 << 63)])
        out.append(('mpz_kronecker_si %s %s' % (hx(a), hx(sv)), 'kronecker_si'))
        out.append(('mpz_kronecker_ui %s %x' % (hx(a), abs(sv)), 'kronecker_ui'))
    # Lehmer-Jacobi state machine: remainder sequences whose quotients and remainder lengths vary a lot: a = k*b + r with b of 3..12
    # limbs, r much shorter than b, k of every residue mod 4, both signs; also with an even factor (jacobi_2 entry branches)
    for _ in range(2500 if quick else 30000):
        bn = rng.randrange(3, 13)
        b = nonzero_top(rng, bn, rng.choice(['uniform', 'uniform', 'runs', 'sparse'])) | 1
        r = rng.getrandbits(rng.choice([64 * bn // 2, 64 * bn // 3, 64, 64 * (bn - 1), 5])) | rng.choice([0, 1])
        k = rng.choice([1, 2, 3, 4, 5, 7, rng.getrandbits(rng.choice([2, 10, 64, 130]))])
        a = (k * b + r) * rng.choice([1, -1])
        if rng.random() < 0.2: a <<= rng.randrange(1, 130)
        out.append(('mpz_kronecker %s %s' % (hx(a), hx(b * rng.choice([1, 1, -1]))), 'kronecker-lehmer'))
        if rng.random() < 0.3:
            # a = 2^j * a' with a' one limb, two-limb odd b (the entry branches of mpn_jacobi_2)
            b2 = nonzero_top(rng, 2) | 1
            a2 = (rng.getrandbits(64) | 1) << rng.randrange(0, 70)
            out.append(('mpz_kronecker %s %s' % (hx(a2 * rng.choice([1, -1])), hx(b2)), 'kronecker-jacobi_2'))
    # exhaustive small symbols: every residue class and sign
    for a in range(-17, 18):
        for b in range(-17, 18):
            out.append(('mpz_kronecker %s %s' % (hx(a), hx(b)), 'kronecker-small'))
    return out

def big_pairs(ctx, tier):
    rng = ctx.rng('big')
    T = getattr(ctx, 'thr', None) or gen_tables.main()[0]
    quick = tier == 'quick'
    res = []
    xs = sorted(set(T.get(k) for k in ('HGCD_THRESHOLD', 'GCD_DC_THRESHOLD', 'GCDEXT_DC_THRESHOLD', 'HGCD_APPR_THRESHOLD') if T.get(k)))
    if not quick and T.get('HGCD_REDUCE_THRESHOLD'): xs.append(T['HGCD_REDUCE_THRESHOLD'])
    for t in xs:
        for n in ((t - 1, t + 1) if quick else (t - 1, t, t + 1, 2 * t + 3)):
            for rep in range(1 if quick else 6):
                a, b = pair(rng, 64 * n)
                if a and b: res.append((a * rng.choice([1, -1]), b * rng.choice([1, -1])))
            a = (rng.getrandbits(64 * n) | 1); b = rng.getrandbits(64 * (n - rng.randrange(0, max(1, n // 2)))) | 1
            res.append((a, b))
    return res

def extra(ctx):
    """Large operands: the implementation's (g, s, t) certified by the model."""
    big = big_pairs(ctx, ctx.tier)
    lines = ['mpz_gcdext %s %s 0' % (hx(a), hx(b)) for a, b in big]
    outs = vlib.run_robust(vlib.impl_cmd(ctx.impl), lines, timeout=1500, died='CRASH')
    cert = []; bad = []
    for (a, b), ln, o in zip(big, lines, outs):
        t = o.split()
        if len(t) != 6:
            bad.append((ln, o, 'malformed or flagged output')); cert.append(None); continue
        cert.append('gcdcheck %s %s %s %s %s' % (hx(a), hx(b), t[0], t[2], t[4]))
    cl = [c for c in cert if c]
    mo = vlib.run_robust(vlib.model_cmd(), cl, timeout=1500, died='MODEL-DIED') if cl else []
    it = iter(mo); nb = 0
    for ln, c in zip(lines, cert):
        if c is None: continue
        m = next(it)
        if vlib.timed_out(ctx, m): continue
        nb += 1
        if m.strip() != '1':
            bad.append((ln, c, 'model rejects the gcdext certificate: ' + m[:80]))
    ctx.extra_cov['large_gcdext_certified'] = nb
    ev = getattr(ctx, 'extra_violations', [])
    for ln, o, why in bad[:3]:
        ev.append({'kind': 'large-gcdext-certificate', 'cases': [ln[:100000]], 'implementation_output': o[:2000], 'note': why, 'key': ln[:200],
                   'theorem': 'C07_gcdext (a s + b t = g, g = gcd, cofactor bounds)'})
    ctx.extra_violations = ev
