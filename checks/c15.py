"""C15 — concurrent use from several threads: correspondence cases."""
import os, sys, importlib, tempfile
from gen import *
import vlib
sys.path.insert(0, os.path.join(os.path.dirname(os.path.dirname(os.path.abspath(__file__))), 'translator'))

PID = 'C15'
NTHREADS = 8
RULE = ('cases = the case generators of C01 C02 C03 C05 C06 C07 C08 C09 C10 C11 C12 C13 C16 C17 C18 C19 (mpn/mpz/mpq/mpf arithmetic, radix conversion, factorial / Fibonacci / prime '
        'functions, printf/scanf to private buffers, random functions on private states), sampled, every case executed by %d threads released together by a barrier, each thread on '
        'its own objects, 16 such processes at once (128 runnable threads on 16 cores); operand sizes below and above the stack/heap temporary limit; the bytes of every writable '
        'library object compared before and after a threaded run; thorough tier: the same under ThreadSanitizer; non-trivial = distinct case line' % NTHREADS)
EXPLANATION = ('threaded implementation vs extracted Coq models (every thread must print exactly what the model computes, and all threads the same bytes); the inventory of writable '
               'library objects is REGENERATED from libmpir.a and Properties_C15.v proves it contains only documented shared state and never-written tables, and that every '
               'interleaving of threads with disjoint write footprints equals the sequential run')
ASSUMPTIONS = ['the interleaving theorem is about an abstract heap machine; that library calls on distinct objects have disjoint footprints apart from the classified globals is tied by '
               'the inventory, by the before/after comparison of those objects and by execution (and ThreadSanitizer in the thorough tier), not proved about the C code',
               'the memory functions installed by the harness are thread-safe (a mutex), as the manual requires of the application',
               'races that do not change any result and are invisible to ThreadSanitizer (for instance in assembly code) cannot be seen']
TIMEOUT = 3000
MODS = ['c01', 'c02', 'c03', 'c05', 'c06', 'c07', 'c08', 'c09', 'c10', 'c11', 'c12', 'c13', 'c16', 'c17', 'c18', 'c19']
# operations that use process-wide state of the harness itself (allocation traces, long histories) are left out
SKIP_OPS = ('histF', 'histA', 'rand_bias', 'mpz_mul_2exp_big')

def nontrivial(line, tag):
    return True

def canon_impl(out):
    return 'x:' if out and 'CRASH-SIGNAL 8' in out else out

class Sub:
    def __init__(self, ctx, name):
        self.seed = ctx.seed; self.tier = 'quick'; self.pid = 'C15/' + name; self.extra_cov = {}; self.extra_violations = []
        import gen_tables
        self.thr = gen_tables.main()[0]
    def rng(self, stream):
        import random
        return random.Random('%s/%s/%s' % (self.seed, self.pid, stream))

def regenerate(ctx):
    import gen_globals
    ctx.inventory = gen_globals.main()

def cases(ctx, tier):
    per = 150 if tier == 'quick' else 1500
    out = []
    for m in MODS:
        mod = importlib.import_module(m)
        sub = Sub(ctx, m)
        cs = [c for c in mod.cases(sub, 'quick') if c[0].split(' ', 1)[0] not in SKIP_OPS]
        # a module's own canonicalisation / matcher does not apply here: keep only cases whose outputs are compared literally
        if hasattr(mod, 'matcher'):
            cs = [c for c in cs if not c[0].startswith(('mpz_nextprime', 'mpz_prime'))]
        r = sub.rng('sample')
        if len(cs) > per: cs = r.sample(cs, per)
        out += [(c[0], m + ':' + str(c[1])) for c in cs]
    # heavy calls: conversions above the precomputed-power thresholds, products with heap temporaries, long factorial /
    # prime computations - the places where a shared scratch object would be reused by several threads at once
    r = ctx.rng('heavy')
    DIG = '0123456789abcdefghijklmnopqrstuvwxyz'
    for _ in range(16 if tier == 'quick' else 200):
        base = r.choice([10, 10, 7, 36, 3])
        n = r.choice([2000, 2100, 2500, 3000])
        sdig = ''.join(DIG[r.randrange(base)] for _ in range(n))
        out.append(('mpz_set_str %s %s' % (hx(base), hb((r.choice(['', '-']) + sdig).encode())), 'heavy:set_str'))
        out.append(('mpz_get_str %s %s' % (hx(base), hx(r.getrandbits(r.choice([4000, 8000])) * r.choice([1, -1]))), 'heavy:get_str'))
    for _ in range(12 if tier == 'quick' else 100):
        out.append(('mpz_mul %s %s 0' % (hx(r.getrandbits(r.choice([20000, 40000]))), hx(-r.getrandbits(r.choice([20000, 30000])))), 'heavy:mul'))
    ctx.impl_cmd = ['env', 'VERIF_THREADS=%d' % NTHREADS, os.path.join(ctx.impl, 'drv')]
    return out

def watch_file(impl):
    """link-time addresses and sizes of the library's writable objects inside the driver executable."""
    import gen_globals
    names = set(g[1] for g in gen_globals.inventory(os.path.join(impl, 'libmpir.a')))
    rc, out = vlib.sh(['nm', '-S', os.path.join(impl, 'drv')])
    lines = []
    for ln in out.splitlines():
        t = ln.split()
        if len(t) == 4 and t[3] in names and t[2] in 'BbDdCc':
            lines.append('%s %s %s' % (t[0], t[1], t[3]))
        elif len(t) == 3 and t[2] == '__executable_start':
            lines.append('%s 0 __executable_start' % t[0])
    return lines

def extra(ctx):
    ev = getattr(ctx, 'extra_violations', [])
    # (a) bytes of every writable library object before / after a threaded battery (single process)
    wl = watch_file(ctx.impl)
    fd, wf = tempfile.mkstemp(prefix='verif-watch-', dir='/var/tmp'); os.write(fd, ('\n'.join(wl) + '\n').encode()); os.close(fd)
    try:
        rng = ctx.rng('watch')
        body = []
        for m in ('c01', 'c06', 'c08', 'c09', 'c13', 'c16', 'c18', 'c19'):
            mod = importlib.import_module(m); sub = Sub(ctx, 'watch-' + m)
            cs = [c[0] for c in mod.cases(sub, 'quick') if c[0].split(' ', 1)[0] not in SKIP_OPS]
            body += rng.sample(cs, min(60, len(cs)))
        # deliberate traps (division by zero ...) end the process: leave those cases out of the before/after run
        pre = vlib.run_robust(vlib.impl_cmd(ctx.impl), body, timeout=900, died='CRASH')
        body = [b for b, o in zip(body, pre) if 'CRASH' not in o]
        text = '\n'.join(['globals_snapshot'] + body + ['globals_compare']) + '\n'
        rc, out = vlib.sh(['env', 'VERIF_THREADS=4', 'VERIF_WATCH=' + wf, os.path.join(ctx.impl, 'drv')], input=text.encode(), timeout=1200, check=False)
        last = out.strip().split('\n')[-1].split() if out.strip() else []
        first = out.strip().split('\n')[0].split() if out.strip() else []
        watched = int(first[1], 16) if len(first) > 1 and first[1] not in ('NO-WATCH-FILE',) else 0
        ctx.extra_cov['writable_objects_watched'] = watched
        ctx.extra_cov['writable_objects_in_library'] = len(getattr(ctx, 'inventory', []) or [])
        changed = last[1:-1] if len(last) >= 2 else ['?']
        ctx.extra_cov['writable_objects_changed_by_a_threaded_run'] = changed
        if rc != 0 or not last or (last and last[-1] != '0') or watched == 0:
            ev.append({'kind': 'library-global-written', 'cases': body[:50], 'implementation_output': out[-1500:], 'note': 'objects of the library changed during a run that calls only reentrant functions on private objects: %s' % ' '.join(changed),
                       'key': 'globals ' + ' '.join(changed), 'theorem': 'C15_only_documented_shared_state (the objects classified never-written are not written)'})
    finally:
        os.unlink(wf)
    # (b) thorough: the same battery under ThreadSanitizer
    if ctx.tier != 'quick':
        tsan(ctx, ev, body)
    ctx.extra_violations = ev

def tsan(ctx, ev, body):
    import shutil, glob, re
    scratch = vlib.scratch_dir('mpir-verif-tsan-')
    try:
        vlib.sh(['rsync', '-a', '--exclude', '.git', '--exclude', '*.o', '--exclude', '*.lo', '--exclude', '*.la', '--exclude', '.libs', '--exclude', '.deps', vlib.REPO + '/', scratch + '/'])
        for f in ('config.status', 'config.h', 'Makefile', 'libtool', 'mpir.h', 'config.m4'):
            try: os.unlink(os.path.join(scratch, f))
            except OSError: pass
        vlib.sh('./configure CC=clang CFLAGS="-O1 -g -fsanitize=thread -Wno-error" --disable-shared', cwd=scratch, timeout=1200)
        rc, out = vlib.sh('make -j%d SUBDIRS="%s"' % (vlib.NCPU, vlib.LIB_SUBDIRS), cwd=scratch, timeout=2400, check=False)
        if rc != 0:
            ctx.extra_cov['tsan'] = 'library does not build with clang -fsanitize=thread: ' + out[-300:]; return
        d = os.path.join(scratch, 'tsan-out'); os.makedirs(os.path.join(d, 'include'))
        for f in glob.glob(os.path.join(scratch, '*.h')): shutil.copy(f, os.path.join(d, 'include'))
        srcs = sorted(glob.glob(os.path.join(vlib.ROOT, 'harness', 'drv.c')) + glob.glob(os.path.join(vlib.ROOT, 'harness', 'ops_*.c'))) + [os.path.join(ctx.impl, 'alias_table.c')]
        wraps = []
        for src in srcs:
            txt = open(src).read(); wraps += re.findall(r'\bWRAPV?\w*\((\w+)', txt) + re.findall(r'\b__wrap_(\w+)\s*\(', txt)
        wl = ['-Wl,--wrap=' + w for w in sorted(set(wraps)) if w.startswith('__')]
        vlib.sh(['clang', '-O1', '-g', '-w', '-fsanitize=thread', '-I' + os.path.join(d, 'include'), '-I' + os.path.join(vlib.ROOT, 'harness')] + srcs +
                [os.path.join(scratch, '.libs', 'libmpir.a'), '-lm', '-lpthread'] + wl + ['-o', os.path.join(d, 'drv')], timeout=900)
        text = '\n'.join(body) + '\n'
        rc, out = vlib.sh(['env', 'VERIF_THREADS=4', 'TSAN_OPTIONS=halt_on_error=0 report_signal_unsafe=0', os.path.join(d, 'drv')], input=text.encode(), timeout=2400, check=False)
        races = re.findall(r'WARNING: ThreadSanitizer: data race.*?(?=\n==================|\Z)', out, flags=re.S)
        lib_races = [r for r in races if re.search(r'(libmpir|__gmp|mpn_|mpz_|mpf_|mpq_)', r) and not re.search(r'rec_alloc|rec_free|rec_realloc', r.split('\n')[2] if len(r.split('\n')) > 2 else '')]
        ctx.extra_cov['tsan'] = {'cases': len(body), 'reports': len(races), 'reports_inside_the_library': len(lib_races)}
        for r in lib_races[:2]:
            ev.append({'kind': 'data-race', 'cases': body[:50], 'implementation_output': r[:3000], 'note': 'ThreadSanitizer reports a data race inside the library', 'key': 'tsan ' + r.split('\n')[1][:120] if len(r.split('\n')) > 1 else 'tsan',
                       'theorem': 'C15 (no data race inside the library)'})
    finally:
        shutil.rmtree(scratch, ignore_errors=True)
