"""C05 — aliasing: for every public mpz/mpq/mpf function whose prototype consists of objects and
scalars (regenerated from gmp-h.in), every permitted partition of its object arguments into classes
of identical variables is enumerated (not sampled) and run against the call with distinct variables."""
import os, sys, re
from gen import *
sys.path.insert(0, os.path.join(os.path.dirname(os.path.dirname(os.path.abspath(__file__))), 'translator'))
import gen_protos

PID = 'C05'
RULE = ('cases = public function (prototype list regenerated from gmp-h.in) x EVERY set partition of its object arguments in which classes are type-uniform and '
        'contain at most one output (the manual forbids one variable for two outputs) x value sets chosen per function (sizes that force the aliased destination to be '
        'reallocated, both signs, zero where defined, exact multiples for divexact, canonical rationals); each case runs the distinct call and the aliased call on equal values '
        'under the always-moving poisoning allocator and compares every argument afterwards; non-trivial = partition with at least one merged class')
EXPLANATION = ('Properties_C05.v states what an aliased call must produce (the function of the initial values; all other variables unchanged) and proves the mpn overlap clauses '
               'on the C loops over a shared memory; the tie for mpz/mpq/mpf functions is the enumerated distinct-vs-aliased comparison on the built library')
ASSUMPTIONS = ['mpz/mpq/mpf aliasing is decided by enumerating alias partitions on the implementation (metamorphic: aliased vs distinct), not by a pointer-level model of each function',
               'functions taking strings, FILE*, random states or raw pointers are outside this harness (covered by C06/C17/C19 checks)']
TIMEOUT = 1200

def set_partitions(n):
    """All restricted-growth strings of length n."""
    def rec(i, cur, mx):
        if i == n:
            yield list(cur); return
        for c in range(mx + 2):
            cur.append(c)
            yield from rec(i + 1, cur, max(mx, c))
            cur.pop()
    if n == 0:
        yield []
    else:
        yield from rec(0, [], -1)

def fam(k):
    return 'z' if k in 'Zz' else 'q' if k in 'Qq' else 'f'

def partitions_for(kinds):
    objs = [k for k in kinds if k in 'ZzQqFf']
    res = []
    for p in set_partitions(len(objs)):
        ok = True
        for c in set(p):
            mem = [objs[i] for i in range(len(objs)) if p[i] == c]
            if len(set(fam(k) for k in mem)) > 1: ok = False
            if len([k for k in mem if k.isupper()]) > 1: ok = False
        if ok:
            res.append(p)
    return res

NONZERO = re.compile(r'div|mod|inv|powm|cong|remove|bin|gcdext|reldiff|jacobi')
NONNEG = re.compile(r'sqrt|root')

def zvalue(rng, name, big=False):
    n = rng.choice([1, 1, 2, 3, 5]) if not big else rng.choice([3, 6, 9])
    x = nonzero_top(rng, n, rng.choice(['uniform', 'runs', 'ones', 'lowzero', 'top1']))
    if not NONNEG.search(name) and rng.getrandbits(1):
        x = -x
    if not NONZERO.search(name) and rng.random() < 0.08:
        x = 0
    return x

def scalar(rng, name, k):
    if k in 'ub':
        if re.search(r'pow_ui', name): return rng.choice([0, 1, 2, 3, 7, 12])
        if re.search(r'2exp', name): return rng.choice([0, 1, 63, 64, 65, 130, 200])
        if re.search(r'bin_ui', name): return rng.choice([0, 1, 2, 5, 9])
        if re.search(r'root', name): return rng.choice([1, 2, 3, 5, 7])
        if re.search(r'fib|luc', name): return rng.choice([0, 1, 2, 50, 93, 94, 200, 1000])
        if re.search(r'mpf_eq', name): return rng.choice([1, 64, 100, 192])
        if re.search(r'div|mod|gcd|lcm|powm', name): return rng.choice([1, 2, 3, 10, (1 << 64) - 1, (1 << 63), rng.getrandbits(64) | 1])
        return rng.choice([0, 1, 2, (1 << 64) - 1, 1 << 63, rng.getrandbits(64), rng.getrandbits(20)])
    if k in 'si':
        return rng.choice([0, 1, -1, (1 << 63) - 1, -(1 << 63), rng.randrange(-(1 << 62), 1 << 62), rng.randrange(-1000, 1000)])
    if k == 'n':
        return rng.randrange(0, 5)
    if k == 'd':
        return rng.choice([0, 1, -1, 12345, -(1 << 40), (1 << 52) + 1])
    return 0

def class_values(rng, name, kinds, part, scal, profile=0):
    """One value (token list) per class, honouring the function's preconditions."""
    objs = [k for k in kinds if k in 'ZzQqFf']
    ncls = max(part) + 1 if part else 0
    vals = []
    for c in range(ncls):
        mem = [i for i in range(len(objs)) if part[i] == c]
        f = fam(objs[mem[0]])
        if f == 'z':
            x = zvalue(rng, name, big=(rng.random() < 0.4))
            if c < 2 and profile:
                # systematic profiles for the first two classes: size (small / large) and sign
                bits = (profile >> (2 * c)) & 3
                x = abs(zvalue(rng, name, big=bool(bits & 1))) or 1
                if bits & 2 and not NONNEG.search(name):
                    x = -x
            vals.append([x])
        elif f == 'q':
            import math
            num = zvalue(rng, name); den = abs(zvalue(rng, 'div')) or 1
            g = math.gcd(num, den); num //= g; den //= g
            if num == 0: den = 1
            if NONZERO.search(name) and num == 0: num = 1
            vals.append([num, den])
        else:
            m = zvalue(rng, name)
            if re.search(r'div|reldiff', name) and m == 0: m = 3
            if NONNEG.search(name): m = abs(m)
            vals.append([m, rng.choice([0, -1, 1, -64, 64, -130, 100, -200])])
    # function-specific repairs
    cls_of = lambda argpos: part[argpos]
    if name in ('mpz_divexact',):
        cn, cd = cls_of(1), cls_of(2)
        if cn != cd:
            vals[cn] = [vals[cd][0] * (zvalue(rng, 'mul') or 1)]
    if name == 'mpz_divexact_ui':
        vals[cls_of(1)] = [scal[0] * zvalue(rng, 'mul')] if scal[0] else vals[cls_of(1)]
    if name == 'mpz_remove':
        c = cls_of(2)
        vals[c] = [abs(vals[c][0])]
        if vals[c][0] < 2: vals[c] = [rng.choice([2, 3, 6, (1 << 64) + 1])]
        cs = cls_of(1)
        if cs != c: vals[cs] = [vals[c][0] ** rng.randrange(0, 4) * (zvalue(rng, 'mul') or 1)]
    if name == 'mpz_powm':
        ce = cls_of(2); vals[ce] = [abs(vals[ce][0]) % (1 << rng.choice([3, 10, 70]))]
        cm = cls_of(3)
        if vals[cm][0] == 0: vals[cm] = [rng.choice([1, 7, 12, (1 << 64) + 3])]
    if name == 'mpz_powm_ui':
        cm = cls_of(2)
        if vals[cm][0] == 0: vals[cm] = [rng.choice([1, 7, 12, (1 << 64) + 3])]
    if name in ('mpz_jacobi',):
        c = cls_of(1); vals[c] = [abs(vals[c][0]) | 1]
    if name == 'mpz_root' or name == 'mpz_nthroot' or name == 'mpz_rootrem':
        pass
    return vals

def nontrivial(line, tag):
    p = line.split()[2]
    return len(set(p)) < len(p)

def cases(ctx, tier):
    rng = ctx.rng('cases')
    protos = gen_protos.main()
    ctx.extra_cov['functions_enumerated'] = len(protos)
    reps = 17 if tier == 'quick' else 64
    out = []
    nparts = 0
    for name, kinds, rk, ret, al in protos:
        parts = partitions_for(kinds)
        nparts += len(parts)
        for p in parts:
            for _ in range(reps):
                scal = [scalar(rng, name, k) for k in kinds if k not in 'ZzQqFf']
                if name == 'mpz_divexact_ui' and scal[0] == 0: scal[0] = 3
                if re.search(r'div|mod', name):
                    scal = [s if s != 0 else 7 for s in scal]
                vals = class_values(rng, name, kinds, p, scal, profile=_ % 16)
                toks = ['alias', name, ''.join(str(c) for c in p)] + [hx(s) for s in scal]
                for v in vals:
                    toks += [hx(x) for x in v]
                out.append((' '.join(toks), name))
    ctx.extra_cov['partitions_enumerated'] = nparts
    ctx.extra_cov['exhaustive_over'] = 'alias partitions of the object arguments of every function in the regenerated prototype table'
    # heap-level model of mpz_add / mpz_sub (C05_heap_aors): operands that own exactly the limbs they need, every alias pattern,
    # results that need one more limb than the destination has (the reallocation moves the block of an aliased source)
    rh = ctx.rng('heap')
    for _ in range(1500 if tier == 'quick' else 15000):
        n1 = rh.randrange(0, 6); n2 = rh.randrange(0, 6)
        u = limbs_value(rh, n1, rh.choice(['ones', 'uniform', 'topmax', 'top1'])) if n1 else 0
        v = limbs_value(rh, n2, rh.choice(['ones', 'uniform', 'topmax', 'top1'])) if n2 else 0
        if rh.random() < 0.2: v = u
        if rh.random() < 0.15 and u: v = ((1 << (64 * n1)) - u)       # carry into a new limb
        u *= rh.choice([1, -1]); v *= rh.choice([1, -1])
        out.append(('mpz_aors_heap %d %s %s %d' % (rh.getrandbits(1), hx(u), hx(v), rh.randrange(5)), 'heap-aors'))
    return out
