"""C13 — mpf accuracy: every result of the library is certified by the model against the exact
rational value (error below 2^(2-p) relative, exact when representable, format rules)."""
import os, sys, math, struct
from fractions import Fraction
from gen import *
import vlib

PID = 'C13'
RULE = ('cases = mpf function x destination precision and each operand precision drawn independently from {53, 64, 65, 128, 129, 192, 256, 1000} bits x exponent differences '
        '-(prec+3)..prec+3 limbs (no, partial, full overlap) x operand shapes (low zero limbs, all-ones limbs, single bits, near-cancelling pairs x+1 000.. minus x fff.., '
        'operands longer than the destination) x alias patterns; each library result is turned into a certificate (value, precision) that the extracted model checks against the '
        'exact rational result: |r - exact| < 2^(2-p)|exact|, r = exact when operands and exact value fit in p bits, exact family equal; plus bit-exact mpf_mul; non-trivial = distinct case line')
EXPLANATION = ('Properties_C13.v proves the accuracy bound for the bit-exact model of mpf_mul for all operands and precisions, and the soundness of the certificate arithmetic; '
               'for every other function the property itself is evaluated by the model on the library\'s result with exact rational arithmetic')
ASSUMPTIONS = ['mpf_mul, mpf_add, mpf_sub, mpf_div, mpf_mul_ui, mpf_div_ui have bit-exact models with theorems; sqrt/set_q/set_d/set_str and the _ui forms are decided per call by the certified property evaluation (exact rational arithmetic in the extracted model)',
               'mpf_get_str digit accuracy is checked per call by Python rational arithmetic in addition (supporting, not part of the model)']
TIMEOUT = 1500

def canon_impl(out):
    return 'x:' if out and 'CRASH-SIGNAL 8' in out else out

def nontrivial(line, tag):
    return True

PRECS = [53, 64, 65, 128, 129, 192, 256, 1000]

def mant(rng, bits):
    k = rng.random()
    if bits <= 0: return 1
    if k < 0.25: return rng.getrandbits(bits) | (1 << (bits - 1)) | 1
    if k < 0.4: return (1 << bits) - 1
    if k < 0.5: return 1 << (bits - 1)
    if k < 0.62: return ((rng.getrandbits(64) | 1) << (bits - 64)) if bits > 64 else (rng.getrandbits(bits) | 1)   # low zero limbs
    if k < 0.74: return (1 << (bits - 1)) | 1
    if k < 0.86: return limbs_value(rng, (bits + 63) // 64, 'runs') | (1 << (bits - 1))
    return rng.getrandbits(bits) | 1

def operand(rng, rp):
    pb = rng.choice(PRECS)
    bits = rng.choice([1, 5, 53, 64, pb, pb, pb + 30, pb + 64, max(1, rp - 1), rp, rp + 1, rp + 64, rp + 130, 2 * rp + 7])
    m = mant(rng, bits) * rng.choice([1, 1, -1])
    e = rng.choice([0, 0, -bits, -bits + 1, 1, -1, 64, -64, 63, -63, 65, 200, -200, -rng.randrange(0, 3000), rng.randrange(0, 3000)])
    return pb, m, e

def frac(m, e):
    return Fraction(m) * (Fraction(2) ** e)

BIN = {'add': 1, 'sub': 2, 'mul': 3, 'div': 4}
UN = {'sqrt': 5, 'neg': 6, 'abs': 7, 'floor': 10, 'ceil': 11, 'trunc': 12, 'set': 13}

def build(ctx, tier):
    """Returns list of (impl_line, spec) where spec = (opcode, a Fraction, b Fraction or None, k)."""
    rng = ctx.rng('cases')
    quick = tier == 'quick'
    out = []
    N = 2500 if quick else 25000
    for i in range(N):
        rp = rng.choice(PRECS)
        pa, ma, ea = operand(rng, rp)
        pb_, mb, eb = operand(rng, rp)
        r = rng.random()
        limbs_r = (max(53, rp) + 127) // 64
        if r < 0.25:
            # exponent difference sweeps the overlap geometries
            d = rng.randrange(-(limbs_r + 3), limbs_r + 4) * 64 + rng.choice([0, 0, 1, -1, 63])
            eb = ea + (abs(ma).bit_length() - abs(mb).bit_length()) + d
        elif r < 0.45:
            # near cancellation: b = -(a -/+ tiny), possibly longer than the destination
            extra = rng.choice([1, 63, 64, 65, 128, 193, rp, rp + 64, 2 * rp])
            mb = -(ma * (1 << extra) - rng.choice([1, -1]) * rng.choice([1, (1 << rng.randrange(0, extra)) | 1])); eb = ea - extra
            pb_ = max(pb_, abs(mb).bit_length())
        elif r < 0.55:
            # (x+1).000 minus x.fff...
            x = rng.getrandbits(rng.choice([1, 10, 64]))
            ma, ea = x + 1, 0
            tail = rng.choice([64, 128, 192, 193, 256, rp + 64, rp + 129]); junk = rng.choice([0, 1, rng.getrandbits(60)])
            mb = -(((x << tail) | ((1 << tail) - 1)) << 64 | junk); eb = -(tail + 64)
            pb_ = max(pb_, abs(mb).bit_length())
        a = frac(ma, ea); b = frac(mb, eb)
        for fn, code in BIN.items():
            if fn == 'div' and mb == 0: continue
            al = rng.choice([0, 0, 0, 1, 2, 3])
            bb = a if al == 3 else b
            if fn == 'div' and bb == 0: continue
            out.append(('mpf %s %x %d %x %s %s %x %s %s' % (fn, rp, al, pa, hx(ma), hx(ea), pb_, hx(mb), hx(eb)), (code, a, bb, 0, al, pa, pb_, rp)))
        fn = rng.choice(list(UN))
        if fn == 'sqrt' and ma < 0: ma = -ma; a = -a
        al = rng.getrandbits(1)
        out.append(('mpf %s %x %d %x %s %s' % (fn, rp, al, pa, hx(ma), hx(ea)), (UN[fn], a, None, 0, al, pa, pa, rp)))
        k = rng.choice([0, 1, 63, 64, 65, 130, rng.randrange(0, 500)])
        for fn, code in (('mul_2exp', 8), ('div_2exp', 9)):
            out.append(('mpf %s %x %d %x %s %s %x' % (fn, rp, al, pa, hx(ma), hx(ea), k), (code, a, None, k, al, pa, pa, rp)))
        u = rng.choice([0, 1, 2, 3, (1 << 64) - 1, 1 << 63, rng.getrandbits(64), rng.getrandbits(20)])
        for fn, code, swap in (('add_ui', 1, 0), ('sub_ui', 2, 0), ('mul_ui', 3, 0), ('div_ui', 4, 0), ('ui_sub', 2, 1), ('ui_div', 4, 1)):
            if fn == 'div_ui' and u == 0: continue
            if fn == 'ui_div' and ma == 0: continue
            bu = Fraction(u)
            if swap:
                out.append(('mpf %s %x %d %x %x %s %s' % (fn, rp, al, u, pa, hx(ma), hx(ea)), (code, bu, a, 0, al, pa, 64, rp)))
            else:
                out.append(('mpf %s %x %d %x %s %s %x' % (fn, rp, al, pa, hx(ma), hx(ea), u), (code, a, bu, 0, al, pa, 64, rp)))
        out.append(('mpf sqrt_ui %x 0 %x' % (rp, u), (5, Fraction(u), None, 0, 0, 64, 64, rp)))
        z = signed_value(rng, 6)
        out.append(('mpf set_z %x 0 %s' % (rp, hx(z)), (13, Fraction(z), None, 0, 0, 0, 0, rp)))
        n = signed_value(rng, 4); d = abs(signed_value(rng, 4)) or 1
        out.append(('mpf set_q %x 0 %s %s' % (rp, hx(n), hx(d)), (13, Fraction(n, d), None, 0, 0, 0, 0, rp)))
        db = rng.choice([0, 1 << 63, 1, (1 << 52) - 1, 0x7FEFFFFFFFFFFFFF, 0x0010000000000000, 0x3FF0000000000000, (rng.getrandbits(1) << 63) | (rng.randrange(0, 2047) << 52) | rng.getrandbits(52)])
        ex = (db >> 52) & 2047; man = db & ((1 << 52) - 1); sg = -1 if db >> 63 else 1
        if ex != 2047:
            val = Fraction(sg * man) * Fraction(2) ** -1074 if ex == 0 else Fraction(sg * (man | (1 << 52))) * Fraction(2) ** (ex - 1075)
            out.append(('mpf set_d %x 0 %x' % (rp, db), (13, val, None, 0, 0, 0, 0, rp)))
        # mpf_set_str: digit strings shorter and much longer than the destination, radix point anywhere, exponents small and so
        # large that base^|exp| needs many more limbs than the destination (it is then built by repeated truncated squarings)
        base = rng.choice([10, 10, 10, 10, 2, 16, 7, 36, 62])
        nd = rng.choice([1, 1, 2, 5, 20, 40, 80, 400])
        DG = '0123456789abcdefghijklmnopqrstuvwxyz' if base <= 36 else '0123456789ABCDEFGHIJKLMNOPQRSTUVWXYZabcdefghijklmnopqrstuvwxyz'
        ds = [rng.randrange(base) for _ in range(nd)]
        if rng.random() < 0.3: ds = [rng.choice([1, base - 1])] + [0] * (nd - 1)
        if ds[0] == 0: ds[0] = 1
        pt = rng.choice([None, None, 0, nd, rng.randrange(0, nd + 1)])
        ex = rng.choice([None, 0, 1, -1, rng.randrange(-40, 40), rng.randrange(-400, 400), rng.randrange(-6000, 6000), rng.randrange(-6000, 6000),
                         rng.choice([1, -1]) * rng.choice([468, 470, 930, 932, 1700, 1702, 3739])])
        txt = ''.join(DG[d] for d in ds)
        if pt is not None: txt = txt[:pt] + '.' + txt[pt:]
        v = Fraction(0)
        for d in ds: v = v * base + d
        eff = 0
        if pt is not None: eff = -(nd - pt)
        if ex is not None:
            def inbase(n):
                s = ''
                while True:
                    s = DG[n % base] + s; n //= base
                    if n == 0: return s
            txt += ('e' if base <= 10 else '@') + ('-' if ex < 0 else rng.choice(['', '+'])) + inbase(abs(ex))
            eff += ex
        sg = rng.choice(['', '', '-'])
        if sg: v = -v
        # the conversion is (digits as an integer) times or divided by base^|effective exponent|: those two are "the operands"
        # of the exactness clause (exact when they and the value fit in p bits), the accuracy clause is about the value itself
        out.append(('mpf set_str %x 0 %x %s' % (rp, base, hb((sg + txt).encode())), (3 if eff >= 0 else 4, v, Fraction(base) ** abs(eff), 0, 0, 0, 0, rp)))
    return out

def cases(ctx, tier):
    """bit-exact mpf_mul correspondence (direct comparison with the model)"""
    rng = ctx.rng('mul')
    out = []
    for _ in range(1500 if tier == 'quick' else 15000):
        prec = rng.choice([2, 3, 4, 5, 9, 17])
        def op():
            n = rng.choice([1, 2, prec - 1, prec, prec + 1, prec + 2, 2 * prec + 1])
            n = max(1, n)
            m = nonzero_top(rng, n, rng.choice(['uniform', 'ones', 'top1', 'lowzero', 'runs'])) * rng.choice([1, -1])
            if rng.random() < 0.04: m = 0
            return m, rng.randrange(-50, 50)
        um, ue = op(); vm, ve = op()
        out.append(('mpf_mul %x %s %s %s %s' % (prec, hx(um), hx(ue), hx(vm), hx(ve)), 'mpf_mul-bitexact'))
        # mpf_add, same sign, every layout of the two mantissas (inside / below / gap / cancelled), carries into a new limb
        sgn = rng.choice([1, -1])
        un = max(1, rng.choice([1, 2, prec - 1, prec, prec + 1, prec + 3])); vn = max(1, rng.choice([1, 2, prec - 1, prec, prec + 2, 2 * prec]))
        am = nonzero_top(rng, un, rng.choice(['uniform', 'ones', 'topmax', 'lowzero', 'runs'])); bm = nonzero_top(rng, vn, rng.choice(['uniform', 'ones', 'topmax', 'lowzero', 'top1']))
        ae = rng.randrange(-20, 20)
        ediff = rng.choice([0, 0, 1, 2, un - 1, un, un + 1, prec - 1, prec, prec + 1, vn, rng.randrange(0, 2 * prec + 2)])
        be = ae - max(0, ediff) if rng.random() < 0.8 else ae + rng.randrange(0, prec + 2)
        if rng.random() < 0.05: bm = 0
        if rng.random() < 0.05: am = 0
        out.append(('mpf_add_exact %x %s %s %s %s' % (prec, hx(sgn * am), hx(ae), hx(sgn * bm), hx(be)), 'mpf_add-bitexact'))
        # mpf_sub: equal leading limbs, x+1 / x with runs of 00 / ff limbs below (near-total cancellation), operands longer than the
        # destination, every layout; a quarter with different signs (the mpf_add path)
        B64 = 1 << 64
        k = rng.random()
        if k < 0.45:
            lead = [rng.getrandbits(64) | 1 for _ in range(rng.randrange(0, 3))]
            x = rng.getrandbits(64) | 2
            tail_u = [rng.choice([0, 0, 0, rng.getrandbits(64)]) for _ in range(rng.randrange(0, prec + 3))]
            tail_v = [rng.choice([B64 - 1, B64 - 1, B64 - 1, rng.getrandbits(64)]) for _ in range(rng.randrange(0, prec + 3))]
            ul = lead + [x] + tail_u; vl = lead + [x - 1 if rng.random() < 0.7 else x] + tail_v
            sm = 0
            for w in ul: sm = sm * B64 + w
            tm = 0
            for w in vl: tm = tm * B64 + w
            se = rng.randrange(-5, 5); te = se - rng.choice([0, 0, 0, 1])
            if rng.random() < 0.5: sm, tm, se, te = tm, sm, te, se
        else:
            sm, se, tm, te = am, ae, bm, be
        s1 = rng.choice([1, -1]); s2 = s1 if rng.random() < 0.75 else -s1
        while sm and sm % B64 == 0 and rng.random() < 0.5: sm //= B64
        out.append(('mpf_sub_exact %x %s %s %s %s' % (prec, hx(s1 * sm), hx(se), hx(s2 * tm), hx(te)), 'mpf_sub-bitexact'))
        # mpf_div / mul_ui / div_ui: dividends shorter and longer than needed, divisors equal to the top limbs of the dividend, exact
        # quotients, zero divisor; the family ceil(B^m / k) / B^m times k whose carry ripples through every kept limb
        dm = bm if rng.random() < 0.97 else 0
        if rng.random() < 0.2 and bm: 
            am2 = bm * (rng.getrandbits(64 * rng.randrange(1, prec + 1)) | 1)          # exact quotient
        elif rng.random() < 0.2 and bm: am2 = (bm << (64 * rng.randrange(0, 3))) + rng.choice([0, 1, -1])
        else: am2 = am
        out.append(('mpf_div_exact %x %s %s %s %s' % (prec, hx(s1 * max(0, am2)), hx(ae), hx(s2 * dm), hx(be)), 'mpf_div-bitexact'))
        kk = rng.choice([1, 1, 2, 3, 10, B64 - 1, 1 << 63, rng.getrandbits(64), rng.getrandbits(64), rng.getrandbits(20) | 1]) if rng.random() < 0.97 else 0
        if rng.random() < 0.3 and kk >= 2:
            mm = prec + rng.randrange(1, 4); um2 = ((1 << (64 * mm)) + kk - 1) // kk
            out.append(('mpf_mul_ui_exact %x %s %s %x' % (prec, hx(um2), hx(0), kk), 'mpf_mul_ui-ripple'))
        out.append(('mpf_mul_ui_exact %x %s %s %x' % (prec, hx(s1 * am), hx(ae), kk), 'mpf_mul_ui-bitexact'))
        out.append(('mpf_div_ui_exact %x %s %s %x' % (prec, hx(s1 * am), hx(ae), kk), 'mpf_div_ui-bitexact'))
    return out

def extra(ctx):
    specs = build(ctx, ctx.tier)
    lines = [s[0] for s in specs]
    outs = vlib.run_robust(vlib.impl_cmd(ctx.impl), lines, timeout=1500, died='CRASH')
    cert = []; bad = []
    hist = {}
    for (ln, sp), o in zip(specs, outs):
        code, a, b, k, al, pa, pb_, rp = sp
        t = o.split()
        fn = ln.split()[1]
        hist[fn] = hist.get(fn, 0) + 1
        if fn == 'set_str':
            if t[:1] != ['0']:
                bad.append((ln, o, 'mpf_set_str rejects a valid string')); cert.append(None); continue
            t = t[1:]
        if len(t) != 4 or not all(all(c in '0123456789abcdef-' for c in x) for x in t):
            bad.append((ln, o, 'crash, malformed result or format rule broken')); cert.append(None); continue
        size = int(t[0], 16) if not t[0].startswith('-') else -int(t[0][1:], 16)
        exp = int(t[1], 16) if not t[1].startswith('-') else -int(t[1][1:], 16)
        prec = int(t[2], 16); m = int(t[3], 16)
        rm = -m if size < 0 else m
        re2 = 64 * (exp - abs(size))
        # destination precision in bits: an aliased destination keeps the precision of the operand it is
        if al in (1, 4) and fn not in ('set_z', 'set_q', 'set_d', 'sqrt_ui') and code not in (): p = 64 * (prec - 1)
        else: p = 64 * (prec - 1)
        bb = b if b is not None else Fraction(0)
        cert.append('mpfcheck %x %x %s %s %s %s %s %s %x' % (code, p, hx(rm), hx(re2), hx(a.numerator), hx(a.denominator), hx(bb.numerator), hx(bb.denominator), k))
    cl = [c for c in cert if c]
    mo = vlib.run_robust(vlib.model_cmd(), cl, timeout=1500, died='MODEL-DIED') if cl else []
    it = iter(mo); nb = 0
    for (ln, sp), c, o in zip(specs, cert, outs):
        if c is None: continue
        m = next(it)
        if vlib.timed_out(ctx, m): continue
        nb += 1
        if m.strip() != '1':
            bad.append((ln, o + ' || ' + c[:400], 'model rejects the accuracy certificate: ' + m[:60]))
    ctx.extra_cov['mpf_results_certified'] = nb
    ctx.extra_cov['mpf_function_histogram'] = hist
    ctx.samples.append({'certificate': cl[0][:300] if cl else None})
    ev = getattr(ctx, 'extra_violations', [])
    seen = {}
    for ln, o, why in bad:
        fn = ln.split()[1]
        seen[fn] = seen.get(fn, 0) + 1
        if seen[fn] > 2: continue
        ev.append({'kind': 'mpf-accuracy-certificate', 'cases': [ln[:4000]], 'implementation_output': o[:2000], 'note': why, 'key': ln[:400],
                   'theorem': 'C13 statement: |r - exact| < 2^(2-p) |exact|, exact when representable, format rules'})
    ctx.extra_cov['mpf_certificates_rejected'] = len(bad)
    ctx.extra_violations = ev
