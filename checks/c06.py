"""C06 — radix conversion: correspondence cases over every base, boundary values, maximal digit
strings, conversion crossovers, borderline size estimates and malformed strings."""
import os, sys, math, itertools
from gen import *
sys.path.insert(0, os.path.join(os.path.dirname(os.path.dirname(os.path.abspath(__file__))), 'translator'))
import gen_tables

PID = 'C06'
RULE = ('cases = conversion function x every base 2..62, -2..-36 and 0 x values 0, +-1, b^k, b^k+-1, maximal-digit and zero-run strings, sizes below/at/above the '
        'GET_STR/SET_STR basecase, divide-and-conquer and power-table crossovers of the regenerated table, powers b^k whose bit length sits just above a bit boundary '
        '(borderline size estimate) up to 120 000 digits; malformed stream: every byte of a 20-symbol alphabet at every position of all strings up to length 3, white space '
        'everywhere, mixed case, base-0 prefixes; non-trivial = distinct case line')
EXPLANATION = ('implementation vs extracted Coq models (RadixDefs.v): the mpz_set_str / mpz_inp_str parsers byte by byte, chunked digit generation/consumption with the regenerated '
               'mp_bases table, alphabets, mpz_sizeinbase incl. the double-precision product; Properties_C06.v proves the round trips, the grammar and the table (incl. log 2/log b by Coq Interval)')
ASSUMPTIONS = ['divide-and-conquer conversion (mpn_dc_get_str / mpn_dc_set_str, power tables) is tied by execution against the proved digit semantics',
               'isspace is the C locale (bytes 9..13 and 32)']
TIMEOUT = 1500

def regenerate(ctx):
    ctx.thr = gen_tables.main()[0]

def nontrivial(line, tag):
    return True

def tostr(x, b):
    """Digits of |x| in base |b| with MPIR's alphabets."""
    ab = abs(b)
    if x == 0: return '0'
    ds = []; n = abs(x)
    while n: ds.append(n % ab); n //= ab
    def ch(d):
        if d < 10: return chr(48 + d)
        if ab > 36: return chr(65 + d - 10) if d < 36 else chr(97 + d - 36)
        return chr(65 + d - 10) if b < 0 else chr(97 + d - 10)
    return ('-' if x < 0 else '') + ''.join(ch(d) for d in reversed(ds))

def borderline_powers(b, kmax, count):
    """k <= kmax with frac(k * log2 b) closest to 1: b^k has a bit length just above k log2 b."""
    lb = math.log2(b)
    best = []
    step = max(1, kmax // 200000)
    for k in range(1000, kmax, step):
        f = (k * lb) % 1.0
        best.append((1.0 - f, k))
    best.sort()
    return [k for _, k in best[:count]]

def cases(ctx, tier):
    rng = ctx.rng('cases')
    T = getattr(ctx, 'thr', None) or gen_tables.main()[0]
    quick = tier == 'quick'
    out = []
    bases_out = list(range(2, 63)) + list(range(-36, -1))
    bases_in = list(range(2, 63)) + [0]
    gdc = T.get('GET_STR_DC_THRESHOLD', 10); gpre = T.get('GET_STR_PRECOMPUTE_THRESHOLD', 16)
    sdc = T.get('SET_STR_DC_THRESHOLD', 668); spre = T.get('SET_STR_PRECOMPUTE_THRESHOLD', 1973)
    for b in bases_out:
        ab = abs(b)
        vals = [0, 1, -1, ab - 1, ab, ab + 1, -(ab ** 2), (1 << 64) - 1, 1 << 64, -(1 << 63)]
        for k in [2, 3, 7, 19, 20, 41, 64, 65]:
            vals += [ab ** k, ab ** k - 1, ab ** k + 1]
        for n in sorted(set([1, 2, gdc - 1, gdc, gdc + 1, gpre - 1, gpre, gpre + 1, 2 * gpre + 1, 40])):
            if n >= 1:
                vals.append(nonzero_top(rng, n) * rng.choice([1, -1]))
                vals.append((1 << (64 * n)) - 1)
        if not quick:
            vals += [nonzero_top(rng, n) for n in (100, 300, 700)]
        for v in vals:
            out.append(('mpz_get_str %s %s' % (hx(b), hx(v)), 'get_str'))
            if b > 0:
                out.append(('mpz_sizeinbase %s %s' % (hx(b), hx(v)), 'sizeinbase'))
        for v in rng.sample(vals, 6):
            out.append(('mpz_out_str %s %s' % (hx(b), hx(v)), 'out_str'))
            if b > 0 and v >= 0:
                n = max(1, (v.bit_length() + 63) // 64)
                if v: out.append(('mpn_get_str %s %x %s' % (hx(b), n, hx(v)), 'mpn_get_str'))
    # digit-count crossovers of set_str, incl. long zero runs and maximal digits
    for b in ([3, 6, 7, 10, 12, 36, 62, 16, 2] if quick else list(range(2, 63))):
        for nd in sorted(set([1, 2, 30, sdc - 1, sdc, sdc + 1, spre - 1, spre, spre + 1, spre + 24, 2 * spre + 1] + ([] if quick else [3 * spre, 5000, 9000]))):
            if nd < 1: continue
            fams = [b ** (nd - 1), b ** (nd - 1) + 1, b ** nd - 1, b ** (nd - 1) + b ** (nd // 2) + 1,
                    (b ** (nd - 1)) + rng.randrange(b ** min(nd - 1, 40) + 1), rng.randrange(b ** (nd - 1), b ** nd)]
            for v in fams:
                s = tostr(v, b)
                if rng.random() < 0.3: s = '-' + s
                out.append(('mpz_set_str %s %s' % (hx(b), hb(s.encode())), 'set_str-size'))
                if nd <= 2 * sdc:
                    dv = []
                    n = v
                    while n: dv.append(n % b); n //= b
                    out.append(('mpn_set_str %s %s' % (hx(b), hb(bytes(reversed(dv)))), 'mpn_set_str'))
            v = rng.randrange(b ** (nd - 1), b ** nd)
            out.append(('mpz_get_str %s %s' % (hx(b), hx(v)), 'get_str-size'))
    # round numbers of the base: m * b^e (long runs of trailing zero digits: every division by a precomputed power of the
    # divide-and-conquer conversion leaves a zero remainder), and the same with a short non-zero tail
    for b in ([3, 7, 10, 10, 12, 36, 62, -16, -36] if quick else [x for x in bases_out if abs(x) & (abs(x) - 1)]):
        ab = abs(b)
        for e in ([60, 220, 250, 500, 1000, 1500] if quick else [60, 220, 250, 500, 1000, 1500, 3000, 6000]):
            for m in (1, 7, ab - 1, rng.getrandbits(64) | 1, nonzero_top(rng, 10)):
                v = m * ab ** e
                out.append(('mpz_get_str %s %s' % (hx(b), hx(v * rng.choice([1, 1, -1]))), 'get_str-round'))
                if b > 0: out.append(('mpn_get_str %s %x %s' % (hx(b), (v.bit_length() + 63) // 64, hx(v)), 'mpn_get_str-round'))
            v = (rng.getrandbits(100) | 1) * ab ** e + rng.randrange(1, ab ** 3)
            out.append(('mpz_get_str %s %s' % (hx(b), hx(v)), 'get_str-round'))
    # mpn_set_str through the as-coded model: digit counts around every multiple of chars_per_limb, around the basecase / divide and
    # conquer / precompute thresholds, high halves that are all zero (below the leading digit), all digits maximal
    for b in ([3, 7, 10, 10, 36, 62, 2, 16, 32] if quick else [2, 3, 5, 7, 10, 11, 16, 17, 26, 32, 36, 37, 49, 60, 62]):
        for nd in sorted(set([1, 2, 18, 19, 20, 38, 39, 40, 41, sdc - 1, sdc, sdc + 1, sdc + 20, spre - 1, spre, spre + 1] + ([2 * spre + 3] if b == 10 or not quick else []) + ([] if quick else [rng.randrange(1, 3 * spre)]))):
            if nd < 1: continue
            if quick and nd > sdc + 20 and b not in (10, 7): continue
            for shape in range(4):
                if quick and nd > sdc + 20 and shape in (1, 2): continue
                if shape == 0: ds = [rng.randrange(b) for _ in range(nd)]
                elif shape == 1: ds = [b - 1] * nd
                elif shape == 2: ds = [1] + [0] * (nd - 1)
                else:
                    ds = [rng.randrange(1, b)] + [0] * (nd - 1)
                    for _ in range(3): ds[rng.randrange(nd)] = rng.randrange(b)
                if ds[0] == 0: ds[0] = 1
                out.append(('mpn_set_str %s %s' % (hx(b), hb(bytes(ds))), 'mpn_set_str-as-coded'))
    # round-trip style inputs in every base, with decorations
    for b in bases_in:
        bb = b if b else rng.choice([2, 8, 10, 16])
        for _ in range(12 if quick else 60):
            v = signed_value(rng, 5)
            s = tostr(abs(v), bb if bb <= 36 and rng.getrandbits(1) else (-bb if bb <= 36 else bb))
            if b == 0:
                s = {2: rng.choice(['0b', '0B']), 8: '0', 10: '', 16: rng.choice(['0x', '0X'])}[bb] + s
                if bb == 10 and s.startswith('0') and len(s) > 1: s = s.lstrip('0') or '0'
            if v < 0: s = '-' + s
            deco = rng.random()
            if deco < 0.2: s = rng.choice([' ', '\t', '\n ', '  \r']) + s
            elif deco < 0.35:
                p = rng.randrange(1, len(s) + 1); s = s[:p] + rng.choice([' ', '\t']) + s[p:]
            elif deco < 0.45: s = s + rng.choice([' ', '\n'])
            elif deco < 0.55 and bb <= 36: s = ''.join(c.upper() if rng.getrandbits(1) else c.lower() for c in s)
            elif deco < 0.6: s = s.replace('-', '-0') if '-' in s else '00' + s
            out.append(('mpz_set_str %s %s' % (hx(b), hb(s.encode())), 'set_str'))
            out.append(('mpz_inp_str %s %s' % (hx(b), hb(s.encode() + rng.choice([b'', b' ', b'\n', b'zz', b'/7']))), 'inp_str'))
            if rng.random() < 0.3:
                d = tostr(abs(signed_value(rng, 3)) or 1, bb)
                out.append(('mpq_set_str %s %s' % (hx(b), hb((s + '/' + d).encode())), 'mpq_set_str'))
                out.append(('mpq_set_str %s %s' % (hx(b), hb(s.encode())), 'mpq_set_str'))
    # malformed stream: exhaustive short strings over a small alphabet
    alpha = b'09aAzZfFgGxXbB -+/_\t'
    for b in ([0, 2, 10, 16, 36, 37, 62] if quick else bases_in):
        for L in (0, 1, 2, 3):
            for tup in itertools.product(alpha, repeat=L):
                if L == 3 and rng.random() < (0.9 if quick else 0.5):
                    continue
                s = bytes(tup)
                out.append(('mpz_set_str %s %s' % (hx(b), hb(s)), 'set_str-malformed'))
                if rng.random() < 0.5:
                    out.append(('mpz_inp_str %s %s' % (hx(b), hb(s)), 'inp_str-malformed'))
    for b in (63, 100, 1, -1):
        out.append(('mpz_set_str %s %s' % (hx(b), hb(b'10')), 'set_str-badbase'))
    # invalid character at every position of valid strings
    for _ in range(300 if quick else 3000):
        b = rng.choice(bases_in); bb = b or 10
        s = tostr(abs(signed_value(rng, 3)) or 7, bb).encode()
        p = rng.randrange(len(s) + 1); c = rng.randrange(1, 256)
        s2 = s[:p] + bytes([c]) + s[p:]
        out.append(('mpz_set_str %s %s' % (hx(b), hb(s2)), 'set_str-invalid-char'))
        out.append(('mpz_inp_str %s %s' % (hx(b), hb(s2)), 'inp_str-invalid-char'))
    # borderline size estimates: huge powers whose bit length is just above a bit boundary
    for b in ([3, 5, 6, 7, 10, 12, 36, 62] if quick else [x for x in range(3, 63) if x & (x - 1)]):
        for k in borderline_powers(b, 120000 if quick else 400000, 2 if quick else 6):
            out.append(('mpz_sizeinbase %s %s' % (hx(b), hx(b ** k)), 'sizeinbase-borderline'))
            out.append(('mpz_sizeinbase %s %s' % (hx(b), hx(b ** k - 1)), 'sizeinbase-borderline'))
    return out


def search(ctx, failed):
    """Directed search when an obligation of Properties_C06.v no longer checks.  The digit value table: every byte the regenerated
    table classifies differently from the manual's digit sets is put into strings for mpz_set_str in a base of the half of the table
    concerned; the library's answer is compared with the manual's rule (accepted as that digit / rejected)."""
    names = [o['name'] for o in failed]
    if not any('digit' in n for n in names):
        return None
    import gen_consts, vlib
    tab = gen_consts.parse_dv()
    def spec(c, cs):
        if 48 <= c <= 57: return c - 48
        if 65 <= c <= 90: return c - 55
        if 97 <= c <= 122: return c - (61 if cs else 87)
        return 255
    bad = []
    for c in range(1, 256):
        for off, cs, bases in ((0, False, (36, 10, 16)), (224, True, (62, 37, 50))):
            got = tab[off + c] if off + c < len(tab) else 255
            if got != spec(c, cs): bad.append((c, cs, bases, got))
    for c, cs, bases, got in bad:
        for b in bases:
            want = spec(c, cs)
            s = b'1' + bytes([c]) + b'1'
            ln = 'mpz_set_str %s %s' % (hx(b), hb(s))
            o = vlib.run_robust(vlib.impl_cmd(ctx.impl), [ln], timeout=120, died='CRASH')[0]
            t = o.split()
            accepted = bool(t) and t[0] == '0'
            should = want < b
            value_ok = (not accepted) or (not should) or (len(t) > 1 and int(t[1], 16) == b * b + want * b + 1)
            if accepted != should or not value_ok:
                return {'cases': [ln], 'implementation_output': o[:300],
                        'expected': ('accepted with digit value %d' % want) if should else 'rejected (return value -1): byte 0x%02x is not a digit of base %d' % (c, b),
                        'note': 'mp_dv_tab.c gives byte 0x%02x the value %d in the %s half of the table; the manual gives it %s' % (c, got, 'second (bases 37..62)' if cs else 'first (bases up to 36)', want if want != 255 else 'no value')}
    return None
