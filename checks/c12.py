"""C12 — rational arithmetic: correspondence cases built from chosen factor sets so that every gcd
in every branch is trivial / non-trivial / equal to an operand."""
import math, struct
from gen import *

PID = 'C12'
RULE = ('cases = mpq function x canonical operands built from factor sets (common factors between the denominators, between cross terms, none at all), integers, zero, negative values, '
        'powers of two in numerator or denominator, shift counts crossing limb boundaries, all alias patterns; canonicalize on arbitrary pairs; set_d on every class of double; '
        'non-trivial = distinct case line with a non-zero operand')
EXPLANATION = 'implementation vs extracted Coq models of mpq/aors.c, mul.c, div.c, inv.c, md_2exp.c, canonicalize.c (MpqDefs.v); Properties_C12.v proves value and canonical form of every result'
ASSUMPTIONS = ['relies on C07 for mpz_gcd and C02 for exact division inside the library; the model uses Z.gcd and exact division']

def canon_impl(out):
    return 'x:' if out and 'CRASH-SIGNAL 8' in out else out

def nontrivial(line, tag):
    return any(len(t) > 1 for t in line.split()[1:])

PRIMES = [2, 3, 5, 7, 11, 13, 2**61 - 1, 2**64 - 59, 2**89 - 1, 2**107 - 1, 2**127 - 1]
def factored(rng, maxf=4):
    x = 1
    for _ in range(rng.randrange(0, maxf + 1)):
        x *= rng.choice(PRIMES) ** rng.choice([1, 1, 2, 3])
    if rng.random() < 0.3:
        x <<= rng.choice([1, 7, 63, 64, 65, 130])
    return x

def canon(n, d):
    g = math.gcd(n, d)
    n //= g; d //= g
    if d < 0: n, d = -n, -d
    return n, d

def rat(rng):
    k = rng.random()
    if k < 0.08: return (0, 1)
    if k < 0.2: return (rng.choice([1, -1]) * factored(rng), 1)
    if k < 0.3: return canon(rng.choice([1, -1]), factored(rng) or 1)
    n = factored(rng) * rng.choice([1, -1]); d = factored(rng)
    if rng.random() < 0.3:
        n = signed_value(rng, 4) or 1; d = abs(signed_value(rng, 4)) or 1
    return canon(n, d)

def related(rng, x):
    """A second operand sharing factors with x in chosen places."""
    n, d = x
    k = rng.random()
    f = factored(rng, 2)
    if k < 0.2: return canon(factored(rng) * rng.choice([1, -1]), d)            # same denominator
    if k < 0.35: return canon(d * rng.choice([1, -1]), abs(n) or 1)             # reciprocal
    if k < 0.5: return canon(rng.choice([1, -1]) * f, d * f)                    # denominators share a factor
    if k < 0.6: return canon(-n, d)                                             # cancels to zero in add
    if k < 0.7: return canon(n + rng.choice([1, -1]) * d, d)
    if k < 0.8: return canon(d * f * rng.choice([1, -1]), (abs(n) or 1) * factored(rng, 1))  # cross cancellation
    return rat(rng)

def cases(ctx, tier):
    rng = ctx.rng('cases')
    out = []
    N = 2500 if tier == 'quick' else 20000
    for _ in range(N):
        x = rat(rng); y = related(rng, x)
        al = rng.choice([0, 0, 1, 2, 3, 4])
        for op in ('add', 'sub', 'mul', 'div'):
            yy = y
            if op == 'div' and yy[0] == 0 and rng.random() < 0.9:
                yy = (1, 3)
            if op == 'div' and al in (3, 4) and x[0] == 0:
                continue
            out.append(('mpq_%s %s %s %s %s %d' % (op, hx(x[0]), hx(x[1]), hx(yy[0]), hx(yy[1]), al), 'mpq_' + op))
        a1 = rng.getrandbits(1)
        if x[0] != 0 or rng.random() < 0.02:
            out.append(('mpq_inv %s %s %d' % (hx(x[0]), hx(x[1]), a1), 'mpq_inv'))
        out.append(('mpq_neg %s %s %d' % (hx(x[0]), hx(x[1]), a1), 'mpq_neg'))
        out.append(('mpq_abs %s %s %d' % (hx(x[0]), hx(x[1]), a1), 'mpq_abs'))
        out.append(('mpq_set %s %s %d' % (hx(x[0]), hx(x[1]), a1), 'mpq_set'))
        v2n = (abs(x[0]) & -abs(x[0])).bit_length() - 1 if x[0] else 0
        v2d = (x[1] & -x[1]).bit_length() - 1
        for cnt in set([0, 1, 63, 64, 65, v2n, v2d, max(0, v2n - 1), v2n + 1, max(0, v2d - 1), v2d + 1, rng.randrange(0, 300)]):
            out.append(('mpq_mul_2exp %s %s %x %d' % (hx(x[0]), hx(x[1]), cnt, a1), 'mpq_mul_2exp'))
            out.append(('mpq_div_2exp %s %s %x %d' % (hx(x[0]), hx(x[1]), cnt, a1), 'mpq_div_2exp'))
        # canonicalize arbitrary pairs
        f = factored(rng, 2)
        n = x[0] * f * rng.choice([1, -1]); d = x[1] * f * rng.choice([1, -1])
        out.append(('mpq_canonicalize %s %s' % (hx(n), hx(d)), 'canonicalize'))
        out.append(('mpq_set_z %s' % hx(signed_value(rng, 4)), 'set_z'))
        out.append(('mpq_set_si %s %x' % (hx(rng.randrange(-(1 << 63), 1 << 63)), rng.getrandbits(64) | 1), 'set_si'))
        out.append(('mpq_set_ui %x %x' % (rng.getrandbits(64), rng.getrandbits(64) | 1), 'set_ui'))
        m = signed_value(rng, 3); e = rng.choice([0, 1, -1, -63, -64, -65, 64, -130, 100, -rng.randrange(0, 200)])
        out.append(('mpq_set_f %s %s' % (hx(m), hx(e)), 'set_f'))
    out.append(('mpq_canonicalize 5 0', 'canonicalize-d0'))
    out.append(('mpq_inv 0 1 0', 'inv-zero'))
    out.append(('mpq_div 1 2 0 1 0', 'div-zero'))
    return out
