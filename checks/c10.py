"""C10 — bitwise functions: correspondence cases."""
from gen import *

PID = 'C10'
RULE = ('cases = operation x operand pair with lengths/length differences 0..6 limbs x all four sign combinations x shapes '
        '(negative values with low and interior zero limbs, -1, -2^k, -(B^k), all-ones, complement pairs on aligned 4-limb blocks, results that grow a limb or cancel) '
        'x bit indices below/at/one past/far above the operand; non-trivial = distinct case line with a non-zero operand')
EXPLANATION = 'implementation vs extracted Coq models of mpn logic/popcount/hamdist/scan and of mpz and/ior/xor/com/setbit/clrbit/combit/tstbit/scan0/scan1/popcount/hamdist, proved equal to Z.land/Z.lor/Z.lxor/Z.lnot/Z.testbit semantics in Properties_C10.v'
ASSUMPTIONS = ['mpz_and/ior/xor are modelled by the two\'s-complement identities the C code uses (|x|-1, limb-wise op, +1), not by each in-place loop; setbit/clrbit/combit through the logical ops with 2^k; tied by execution']

def nontrivial(line, tag):
    return any(len(t) > 1 for t in line.split()[1:])

def holes(rng, x, n):
    for _ in range(rng.randrange(1, max(2, n))):
        k = rng.randrange(n)
        x &= ~(((1 << 64) - 1) << (64 * k))
    return x

def zval(rng, maxn=7):
    n = rng.randrange(0, maxn + 1)
    if n == 0:
        return 0
    kind = rng.random()
    if kind < 0.15:
        x = 1 << rng.randrange(64 * n)                  # +-2^k
    elif kind < 0.25:
        x = 1 << (64 * rng.randrange(n))                # B^k
    elif kind < 0.35:
        x = (1 << (64 * n)) - 1
    elif kind < 0.55:
        x = holes(rng, nonzero_top(rng, n), n) or 1
    elif kind < 0.65:
        x = rng.choice([1, 2, 3])
    else:
        x = nonzero_top(rng, n)
    return -x if rng.getrandbits(1) else x

def cases(ctx, tier):
    rng = ctx.rng('cases')
    out = []
    quick = tier == 'quick'
    N = 40 if quick else 120
    for n in range(1, N + 1):
        for _ in range(2 if quick else 4):
            u = limbs_value(rng, n); v = limbs_value(rng, n)
            for op in ('and_n', 'andn_n', 'ior_n', 'iorn_n', 'nand_n', 'nior_n', 'xor_n', 'xnor_n'):
                out.append(('mpn_%s %x %x %x %d' % (op, n, u, v, rng.choice([0, 0, 1, 2])), 'mpn-logic'))
            out.append(('mpn_popcount %x %x' % (n, u), 'popcount'))
            out.append(('mpn_hamdist %x %x %x' % (n, u, v), 'hamdist'))
            # complement pairs on aligned blocks of 1..8 limbs
            blk = rng.choice([1, 2, 4, 8]); mask = 0
            for b0 in range(0, n, blk):
                if rng.random() < 0.5:
                    mask |= ((1 << (64 * min(blk, n - b0))) - 1) << (64 * b0)
            out.append(('mpn_hamdist %x %x %x' % (n, u, u ^ mask), 'hamdist-compl'))
            out.append(('mpn_popcount %x %x' % (n, mask), 'popcount-blocks'))
            # scans with a guaranteed hit
            w = holes(rng, u, n) if rng.random() < 0.5 else u
            if w:
                hi = w.bit_length() - 1
                s = rng.randrange(0, hi + 1)
                out.append(('mpn_scan1 %x %x %x' % (n, w, s), 'mpn_scan1'))
            wz = ((1 << (64 * n)) - 1) ^ w
            if wz:                      # a zero bit exists in u
                hi = wz.bit_length() - 1
                s = rng.randrange(0, hi + 1)
                out.append(('mpn_scan0 %x %x %x' % (n, w, s), 'mpn_scan0'))
        ones = (1 << (64 * n)) - 1
        out.append(('mpn_popcount %x %x' % (n, ones), 'popcount-ones'))
        out.append(('mpn_hamdist %x 0 %x' % (n, ones), 'hamdist-ones'))
    M = 1500 if quick else 12000
    for i in range(M):
        a = zval(rng); b = zval(rng)
        r = rng.random()
        if r < 0.1: b = -a
        elif r < 0.2: b = ~a
        elif r < 0.3: b = a
        elif r < 0.4: b = -a + rng.choice([1, -1])
        al = rng.choice([0, 0, 1, 2, 3, 4])
        for op in ('and', 'ior', 'xor'):
            out.append(('mpz_%s %s %s %d' % (op, hx(a), hx(b), al), 'mpz_' + op))
        out.append(('mpz_com %s %d' % (hx(a), rng.getrandbits(1)), 'mpz_com'))
        bl = abs(a).bit_length()
        ks = [0, rng.randrange(0, bl + 1), max(0, bl - 1), bl, bl + 1, 64 * ((bl + 63) // 64), 64 * ((bl + 63) // 64) + 1,
              64 * rng.randrange(0, bl // 64 + 2), 64 * rng.randrange(0, bl // 64 + 2) + 63, bl + rng.randrange(60, 700)]
        for k in rng.sample(ks, 4):
            for op in ('setbit', 'clrbit', 'combit', 'tstbit', 'scan0', 'scan1'):
                out.append(('mpz_%s %s %x' % (op, hx(a), k), 'mpz_' + op))
        out.append(('mpz_popcount %s' % hx(a), 'mpz_popcount'))
        out.append(('mpz_hamdist %s %s %d' % (hx(a), hx(b), 1 if r > 0.97 else 0), 'mpz_hamdist'))
        if a > 0 and rng.random() < 0.3:
            n = (a.bit_length() + 63) // 64
            blk = 4; mask = 0
            for b0 in range(0, n, blk):
                if rng.random() < 0.6:
                    mask |= ((1 << (64 * min(blk, n - b0))) - 1) << (64 * b0)
            out.append(('mpz_hamdist %s %s 0' % (hx(a), hx(a ^ mask)), 'mpz_hamdist-compl'))
            out.append(('mpz_hamdist %s %s 0' % (hx(-a - 1), hx(-(a ^ mask) - 1)), 'mpz_hamdist-compl-neg'))
    return out
