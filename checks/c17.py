"""C17 — import/export, raw format, stream round trips and stream faults: correspondence cases."""
import os, sys
from gen import *
import vlib

PID = 'C17'
RULE = ('cases = mpz_export / mpz_import over every word size 1..16 x order +-1 x endian -1/0/+1 x nails (0, 1, 7, 8, 8*size-1 and random) x misalignment 0..7 x stale limbs above SIZ x '
        'NULL destination; values of every limb count 0..5 with all-ones / single-bit / random shapes, value bit lengths on every multiple of the word payload +-1; import of random bytes with '
        'random nail bits set; mpz_out_raw / mpz_inp_raw on values, on arbitrary 4-byte headers (byte count disagreeing with the data, negative, high zero bytes); every truncation point of '
        'valid text and raw streams for mpz / mpq / mpf readers; every fault position k = 0..len+1 of an unbuffered failing stream for mpz_out_str, mpz_out_raw, mpq_out_str, mpf_out_str, '
        'gmp_fprintf; non-trivial = distinct case line')
EXPLANATION = ('implementation vs extracted Coq models (IoDefs.v, RadixDefs.v inp_str, ApiIo.v): byte-level export/import, raw encoder/decoder, stream readers on every prefix, fault return '
               'values; Properties_C17.v proves import (export x) = |x|, the word count formula, zero nail bits, inp_raw (out_raw x) = x and failure on every proper prefix')
ASSUMPTIONS = ['streams are fmemopen / open_memstream / fopencookie objects of the C library; a write fault is "the stream accepts k bytes, then 0"',
               'mpf digit generation is not modelled here: mpf_out_str output is checked for format, length, fault returns and by reading it back (certificate evaluated by the model)',
               'mpf text round trip: exact for power-of-two bases, to destination precision otherwise; the reader is given the negative base (decimal exponent) as the manual prescribes']
TIMEOUT = 1500

def nontrivial(line, tag):
    return True

def val(rng, maxlimbs=5):
    k = rng.random()
    n = rng.randrange(0, maxlimbs + 1)
    if n == 0: return 0
    if k < 0.25: return (1 << (64 * n)) - 1
    if k < 0.35: return 1 << (64 * n - 1)
    if k < 0.45: return 1 << (64 * (n - 1))
    if k < 0.55: return rng.getrandbits(64 * n - rng.randrange(0, 64)) | 1
    if k < 0.65 and n > 1: return (nonzero_top(rng, n - 1) << 64) | rng.choice([0, 1, 1])     # a low limb that looks like a small value
    return nonzero_top(rng, n)

def nails_for(rng, size):
    return rng.choice([0, 0, 0, 1, 7, 8, 9, 8 * size - 1, 8 * size - 8, rng.randrange(0, 8 * size)]) % (8 * size)

def cases(ctx, tier):
    rng = ctx.rng('cases')
    quick = tier == 'quick'
    out = []
    # export: full grid of parameters, a few values each
    for size in range(1, 17):
        for order in (1, -1):
            for endian in (1, 0, -1):
                for rep in range(6 if quick else 40):
                    nails = nails_for(rng, size)
                    numb = 8 * size - nails
                    k = rng.random()
                    if k < 0.3:
                        w = rng.randrange(1, 8); x = rng.getrandbits(max(1, numb * w + rng.choice([-1, 0, 0, 1]))) | 1
                        if rng.random() < 0.5: x |= 1 << max(0, numb * w - 1 + rng.choice([0, 1]))
                    else:
                        x = val(rng)
                    if rng.random() < 0.3: x = -x
                    align = rng.randrange(0, 8); stale = rng.choice([0, 0, 1, 2, 3]); nullrop = 1 if rng.random() < 0.15 else 0
                    out.append(('mpz_export %s %x %s %s %x %x %x %d' % (hx(x), size, hx(order), hx(endian), nails, align, stale, nullrop), 'export-size%d' % size))
                    # import of arbitrary bytes (nail bits set at random)
                    count = rng.choice([0, 1, 1, 2, 3, 4, 5, 8, rng.randrange(0, 12)])
                    bs = bytes(rng.getrandbits(8) for _ in range(count * size))
                    if rng.random() < 0.2: bs = bytes(count * size)
                    if rng.random() < 0.2 and count: bs = bytes([255]) * (count * size)
                    if rng.random() < 0.2 and count:  # high words zero: normalisation
                        z = bytearray(bs); w0 = rng.randrange(0, count)
                        for i in range(w0, count):
                            pos = i if order == -1 else count - 1 - i
                            z[pos * size:(pos + 1) * size] = bytes(size)
                        bs = bytes(z)
                    out.append(('mpz_import %s %x %x %s %s %x %x' % (hb(bs), count, size, hx(order), hx(endian), nails, rng.randrange(0, 8)), 'import-size%d' % size))
    # limb-sized fast paths, every alignment, stale limbs
    for align in range(8):
        for order in (1, -1):
            for endian in (1, 0, -1):
                for n in (1, 2, 3, 5):
                    x = nonzero_top(rng, n)
                    out.append(('mpz_export %s 8 %s %s 0 %x %x 0' % (hx(x), hx(order), hx(endian), align, rng.choice([0, 2])), 'export-limb-fastpath'))
                    bs = bytes(rng.getrandbits(8) for _ in range(8 * n))
                    out.append(('mpz_import %s %x 8 %s %s 0 %x' % (hb(bs), n, hx(order), hx(endian), align), 'import-limb-fastpath'))
    # raw format
    for _ in range(300 if quick else 3000):
        x = val(rng, 6) * rng.choice([1, -1])
        if rng.random() < 0.3: x = rng.choice([1, -1]) * (rng.getrandbits(rng.randrange(1, 200)) | 1)
        out.append(('mpz_out_raw %s %x' % (hx(x), rng.choice([0, 0, 2])), 'out_raw'))
        from_model = raw_bytes(x)
        out.append(('mpz_inp_raw %s' % hb(from_model + bytes(rng.getrandbits(8) for _ in range(rng.randrange(0, 3)))), 'inp_raw-valid'))
    for _ in range(400 if quick else 4000):
        # arbitrary headers
        k = rng.random()
        dl = rng.randrange(0, 40)
        data = bytes(rng.getrandbits(8) for _ in range(dl))
        if rng.random() < 0.3 and dl: data = bytes(rng.randrange(1, dl + 1)) + data[:dl]        # high zero bytes
        if k < 0.35: c = len(data)
        elif k < 0.5: c = -len(data)
        elif k < 0.65: c = len(data) + rng.choice([1, 2, 7, 8, 9, 100])
        elif k < 0.75: c = -(len(data) + rng.choice([1, 8, 64]))
        elif k < 0.85: c = rng.randrange(0, len(data) + 1)
        elif k < 0.9: c = rng.choice([1 << 16, -(1 << 16), (1 << 20) + 3, -(1 << 20)])
        else: c = rng.randrange(-40, 40)
        hdr = (c % (1 << 32)).to_bytes(4, 'big')
        if rng.random() < 0.1: hdr = hdr[:rng.randrange(0, 4)]; data = b''
        out.append(('mpz_inp_raw %s' % hb(hdr + data), 'inp_raw-header'))
    # every truncation point
    for _ in range(60 if quick else 600):
        x = val(rng, 3) * rng.choice([1, -1]); base = rng.choice([2, 8, 10, 16, 36, 62, 0, 0, 7])
        s = text(x, base, rng)
        out.append(('io_rtrunc 1 %s %s' % (hx(base), hb(ws(rng) + s + tail(rng))), 'truncate-mpz_inp_str'))
        out.append(('io_rtrunc 2 0 %s' % hb(raw_bytes(x) + bytes(rng.getrandbits(8) for _ in range(rng.randrange(0, 2)))), 'truncate-mpz_inp_raw'))
        d = abs(val(rng, 2)) or 1
        if rng.random() < 0.2: d = 1
        sq = text(x, base, rng) + (b'/' + text(d * rng.choice([1, 1, 1, -1]), base, rng) if rng.random() < 0.85 else b'')
        if rng.random() < 0.1: sq = text(x, base, rng) + b'/ ' + text(d, base, rng)
        if rng.random() < 0.1: sq = text(x, base, rng) + b' /' + text(d, base, rng)
        out.append(('io_rtrunc 3 %s %s' % (hx(base), hb(ws(rng) + sq + tail(rng))), 'truncate-mpq_inp_str'))
    # every write-fault position
    for _ in range(40 if quick else 400):
        x = val(rng, 3) * rng.choice([1, -1]); base = rng.choice([2, 10, 16, 36, 62, -16, -36])
        out.append(('io_wfail 1 %s %s' % (hx(base), hx(x)), 'wfail-mpz_out_str'))
        out.append(('io_wfail 2 %s' % hx(x), 'wfail-mpz_out_raw'))
        d = abs(val(rng, 2)) or 1
        if rng.random() < 0.25: d = 1
        out.append(('io_wfail 3 %s %s %s' % (hx(base), hx(x), hx(d)), 'wfail-mpq_out_str'))
        out.append(('io_wfail 5 %d %s' % (rng.getrandbits(1), hx(x)), 'wfail-gmp_fprintf-Z'))
        out.append(('io_wfail 6 %d %s %s' % (rng.getrandbits(1), hx(x), hx(d)), 'wfail-gmp_fprintf-Q'))
    # denominators (and numerators) whose low limb alone looks like 1 or 0
    for d in [(1 << 64) + 1, (3 << 64) + 1, (1 << 128) + 1, (rng.getrandbits(64) << 64) | 1, 1 << 64, (1 << 128), 1, 2]:
        for x in [3, -(1 << 64) - 1, (5 << 64) + 1, 0]:
            for base in (10, 16):
                out.append(('io_wfail 3 %s %s %s' % (hx(base), hx(x), hx(d)), 'wfail-mpq_out_str-lowlimb'))
                out.append(('io_wfail 6 %d %s %s' % (base == 16, hx(x), hx(d)), 'wfail-gmp_fprintf-Q-lowlimb'))
                out.append(('io_rtrunc 3 %s %s' % (hx(base), hb(text(x, base, rng) + b'/' + text(d, base, rng))), 'truncate-mpq_inp_str-lowlimb'))
    return out

def raw_bytes(x):
    a = abs(x); nb = (a.bit_length() + 7) // 8
    return ((nb if x >= 0 else -nb) % (1 << 32)).to_bytes(4, 'big') + a.to_bytes(nb, 'big')

DIG = '0123456789abcdefghijklmnopqrstuvwxyz'
DIG62 = '0123456789ABCDEFGHIJKLMNOPQRSTUVWXYZabcdefghijklmnopqrstuvwxyz'
def text(x, base, rng):
    """digits of x for the reader's base argument (0 = prefix decides)."""
    pre = ''
    b = base
    if base == 0:
        b = rng.choice([10, 16, 8, 2]); pre = {10: '', 16: rng.choice(['0x', '0X']), 8: '0', 2: rng.choice(['0b', '0B'])}[b]
    a = abs(x); ds = ''
    tab = DIG62 if b > 36 else DIG
    while a:
        ds = tab[a % b] + ds; a //= b
    if not ds: ds = '0'
    if base == 0 and b == 10 and ds[0] == '0': pre = ''
    return (('-' if x < 0 else '') + pre + ds).encode()

def ws(rng):
    return rng.choice([b'', b'', b' ', b'\n\t ', b'  '])
def tail(rng):
    return rng.choice([b'', b'', b' ', b'\n', b'x', b' 12', b'/'])

# ---- mpf stream functions: certificates checked by the model ----
def mpf_cases(ctx, tier):
    rng = ctx.rng('mpf')
    res = []
    for _ in range(60 if tier == 'quick' else 600):
        base = rng.choice([2, 4, 8, 10, 10, 16, 32, 36, 62, 7])
        pb = rng.choice([53, 64, 128, 200, 256])
        mant = rng.choice([0, 1, -1, 5, rng.getrandbits(rng.randrange(1, pb)) | 1, -(rng.getrandbits(rng.randrange(1, pb)) | 1)])
        e2 = rng.choice([0, 0, 1, -1, 64, -64, rng.randrange(-300, 300)])
        nd = rng.choice([0, 0, 0, 1, 5, 20])
        res.append((base, nd, pb, mant, e2))
    return res

def extra(ctx):
    cs = mpf_cases(ctx, ctx.tier)
    l1 = ['io_wfail 4 %s %x %x %s %s' % (hx(b), nd, pb, hx(m), hx(e)) for b, nd, pb, m, e in cs]
    l3 = ['mpf_io %s %x %x %s %s' % (hx(b), nd, pb, hx(m), hx(e)) for b, nd, pb, m, e in cs]
    o1 = vlib.run_robust(vlib.impl_cmd(ctx.impl), l1, timeout=600, died='CRASH')
    o3 = vlib.run_robust(vlib.impl_cmd(ctx.impl), l3, timeout=600, died='CRASH')
    # truncation of the strings the library itself produced (reader given the negative base)
    l2 = []; idx2 = []
    for i, (c, o) in enumerate(zip(cs, o1)):
        t = o.split()
        if t and t[0].startswith('x:'):
            l2.append('io_rtrunc 4 %s %s' % (hx(-c[0]), t[0])); idx2.append(i)
    o2 = vlib.run_robust(vlib.impl_cmd(ctx.impl), l2, timeout=600, died='CRASH') if l2 else []
    certs = []; origin = []
    bad = []
    for c, ln, o in zip(cs, l1, o1):
        t = o.split()
        if len(t) < 3 or not t[0].startswith('x:') or any(not ishex(v) for v in t[1:]):
            bad.append((ln, o, 'malformed or flagged output')); continue
        certs.append('iofcheck 1 %s %s' % (hx(c[0]), ' '.join(t))); origin.append((ln, o))
    for i, ln, o in zip(idx2, l2, o2):
        t = o.split()
        if any(not ishex(v) for v in t):
            bad.append((ln, o, 'malformed or flagged output')); continue
        certs.append('iofcheck 2 %s %s %s' % (hx(cs[i][0]), ln.split()[3], ' '.join(t))); origin.append((ln, o))
    for c, ln, o in zip(cs, l3, o3):
        t = o.split()
        if len(t) != 10 or not t[0].startswith('x:') or any(not ishex(v) for v in t[1:]):
            bad.append((ln, o, 'malformed or flagged output')); continue
        base, nd, pb, m, e = c
        exact = 1 if (base & (base - 1)) == 0 and nd == 0 else 0
        if nd != 0:
            continue            # a requested digit count below full precision is a rounding, not a round trip
        certs.append('iofcheck 3 %s %d' % (' '.join(t), exact)); origin.append((ln, o))
    mo = vlib.run_robust(vlib.model_cmd(), certs, timeout=600, died='MODEL-DIED') if certs else []
    n_ok = 0
    for (ln, o), c, m in zip(origin, certs, mo):
        if m.strip() == '1': n_ok += 1
        elif vlib.timed_out(ctx, m): pass
        else: bad.append((ln, o, 'model rejects the certificate (%s): %s' % (c.split()[1], m[:60])))
    ctx.extra_cov['mpf_stream_certificates'] = n_ok
    ev = getattr(ctx, 'extra_violations', [])
    for ln, o, why in bad[:3]:
        ev.append({'kind': 'mpf-stream-certificate', 'cases': [ln], 'implementation_output': o[:2000], 'note': why, 'key': ln[:200],
                   'theorem': 'C17 (mpf_out_str / mpf_inp_str: format, counts, fault returns, value read back)'})
    ctx.extra_violations = ev

def ishex(v):
    v = v[1:] if v.startswith('-') else v
    return bool(v) and all(ch in '0123456789abcdef' for ch in v)
