"""C16 — factorial, binomial, Fibonacci/Lucas, remove, primality: correspondence cases."""
import os, sys, math
from gen import *
sys.path.insert(0, os.path.join(os.path.dirname(os.path.dirname(os.path.abspath(__file__))), 'translator'))
import gen_tables
import vlib

PID = 'C16'
RULE = ('cases = function x n through every table limit and algorithm crossover (+-1) of the regenerated tables (FIB_TABLE_LIMIT, factorial tables, FAC_DSC/FAC_ODD thresholds), every n up to 400 '
        'for Fibonacci/Lucas, (n,k) grid over the binomial regions, bin_ui with negative and multi-limb n, remove with every multiplicity; primality below 2^64: Carmichael numbers (incl. '
        'Chernick families), strong pseudoprimes to small bases, squares of primes, neighbours of 2^32, 2^53, 2^64, products of two primes close together; nextprime gaps; '
        'non-trivial = distinct case line')
EXPLANATION = ('implementation vs extracted Coq models (CombDefs.v): Fibonacci doubling from the regenerated table, definitional factorial/multifactorial/primorial/binomial, remove, '
               'deterministic Miller-Rabin oracle below 2^64; Properties_C16.v proves the doubling scheme, the table, the definitional identities and remove')
ASSUMPTIONS = ['primality ground truth below 2^64 is deterministic Miller-Rabin with the first twelve prime bases (published result, used as test oracle only)',
               '"composites are reported composite with 25 repetitions" is probabilistic in nature: checked on the constructed families only',
               'sieve-based factorial / primorial for n above 20000 and the Goetgheluck binomial path are compared through residues / not at all in the quick tier']
TIMEOUT = 1500

def regenerate(ctx):
    ctx.thr = gen_tables.main()[0]

def nontrivial(line, tag):
    return True

def matcher(line, impl, model):
    a = impl.split(); b = model.split()
    if len(a) != len(b):
        return False
    op = line.split()[0]
    if op == 'mpz_nextprime':
        n = int(line.split()[1], 16) if not line.split()[1].startswith('-') else -int(line.split()[1][1:], 16)
        try:
            r = int(a[0], 16); c = int(a[1], 16); q = int(b[0], 16)
        except ValueError:
            return False
        return r == q and n < c <= q
    for x, y in zip(a, b):
        if y == '-1':
            continue
        if x != y:
            return False
    return True

CARMICHAEL = [561, 1105, 1729, 2465, 2821, 6601, 8911, 10585, 15841, 29341, 41041, 46657, 52633, 62745, 63973, 75361, 101101, 115921, 126217, 162401, 172081, 188461, 252601,
              278545, 294409, 314821, 334153, 340561, 399001, 410041, 449065, 488881, 512461, 118901521, 172947529, 2301745249, 9624742921, 7622722964881, 232250619601, 9746347772161]
SPSP = [2047, 3277, 4033, 4681, 8321, 1373653, 25326001, 3215031751, 2152302898747, 3474749660383, 341550071728321, 3825123056546413051, 318665857834031151167461 % (1 << 64)]

def chernick(k):
    return (6 * k + 1) * (12 * k + 1) * (18 * k + 1)

def is_prime(n):
    if n < 2: return False
    for p in (2, 3, 5, 7, 11, 13, 17, 19, 23, 29, 31, 37):
        if n % p == 0: return n == p
    d = n - 1; s = 0
    while d % 2 == 0: d //= 2; s += 1
    for a in (2, 3, 5, 7, 11, 13, 17, 19, 23, 29, 31, 37):
        x = pow(a, d, n)
        if x in (1, n - 1): continue
        for _ in range(s - 1):
            x = x * x % n
            if x == n - 1: break
        else: return False
    return True

def cases(ctx, tier):
    rng = ctx.rng('cases')
    T = getattr(ctx, 'thr', None) or gen_tables.main()[0]
    quick = tier == 'quick'
    out = []
    for n in list(range(0, 401)) + [500, 1000, 1023, 1024, 1025, 4095, 4096, 10000, 65535, 65536] + ([] if quick else [100000, 1 << 17]):
        out.append(('mpz_fib2_ui %x' % n, 'fib'))
        out.append(('mpz_lucnum2_ui %x' % n, 'lucnum'))
    dsc = T.get('FAC_DSC_THRESHOLD', 898); odd = T.get('FAC_ODD_THRESHOLD', 0)
    ns = sorted(set(list(range(0, 130)) + [dsc - 1, dsc, dsc + 1, 2 * dsc, odd, odd + 1, 255, 256, 257, 1000, 1500, 2047, 2048, 2049] + [rng.randrange(130, 2500) for _ in range(20)]))
    for n in ns:
        if n < 0: continue
        out.append(('mpz_fac_ui %x 0' % n, 'fac'))
        out.append(('mpz_2fac_ui %x 0' % n, '2fac'))
        out.append(('mpz_2fac_ui %x 0' % (n + 1), '2fac'))
        for m in (1, 2, 3, 5, 7, max(1, n), n + 1, max(1, n // 2)):
            out.append(('mpz_mfac_uiui %x %x 0' % (n, m), 'mfac'))
        if n <= 1300:
            out.append(('mpz_primorial_ui %x 0' % n, 'primorial'))
    for n in ([3000, 5000, 10000, 20000] if quick else [3000, 5000, 10000, 20000, 50000, 100000]):
        out.append(('mpz_fac_ui %x 1' % n, 'fac-residues'))
        out.append(('mpz_2fac_ui %x 1' % (n + 1), '2fac-residues'))
        out.append(('mpz_mfac_uiui %x 3 1' % n, 'mfac-residues'))
    for n in list(range(0, 70)) + [100, 128, 200, 255, 256, 400, 1000, 2000, (1 << 32) - 1, 1 << 32, (1 << 64) - 1]:
        ks = set([0, 1, 2, 3, n // 2, n - 1, n, n + 1, 25, 26, 70, 71]) if n <= 2000 else set([0, 1, 2, 3, 5, 8])
        for k in ks:
            if k < 0: continue
            if n > 2000 and k > 8: continue
            out.append(('mpz_bin_uiui %x %x 0' % (n, k), 'bin_uiui'))
    # large k (the prime-factor sieve path of bin_uiui: k above 1000 and above n/16): n twice a prime, a prime, a prime power, a
    # multiple of small primes; k next to the path boundary, next to n/2 and in between
    for _ in range(24 if quick else 300):
        p_ = rng.choice([q for q in range(1009, 1400) if is_prime(q)])
        n = rng.choice([2 * p_, 2 * p_, 2 * p_ + 1, p_ * 2 - 1, 2048, 2187, 2310, rng.randrange(2010, 2800)])
        for k in set([1001, n // 2 - 1, n // 2, rng.randrange(1001, n // 2), n - rng.randrange(1001, n // 2)]):
            out.append(('mpz_bin_uiui %x %x 0' % (n, k), 'bin_uiui-large-k'))
    for _ in range(200 if quick else 2000):
        n = rng.choice([signed_value(rng, 3), -rng.randrange(0, 300), rng.randrange(0, 3000), -(1 << 64), (1 << 64) + 5])
        k = rng.choice([0, 1, 2, 3, 5, 10, 17, 40])
        out.append(('mpz_bin_ui %s %x %d' % (hx(n), k, rng.getrandbits(1)), 'bin_ui'))
    for _ in range(300 if quick else 3000):
        f = rng.choice([2, 3, 5, 6, 10, (1 << 64) - 59, (1 << 64) + 13, (1 << 130) + 7, rng.getrandbits(40) | 3])
        k = rng.choice([0, 1, 2, 3, 7, 16, 31, 33, 64])
        co = rng.choice([1, -1, 7, signed_value(rng, 3) or 1])
        out.append(('mpz_remove %s %s %d' % (hx(co * f ** k), hx(f), rng.choice([0, 0, 1, 2])), 'remove'))
    out.append(('mpz_remove 0 5 0', 'remove-zero'))
    # primality
    cand = list(range(0, 300)) + CARMICHAEL + SPSP + [chernick(k) for k in range(1, 400, 2) if all(is_prime(x) for x in (6 * k + 1, 12 * k + 1, 18 * k + 1)) and chernick(k) < (1 << 64)]
    for e in (16, 31, 32, 53, 61, 63, 64):
        for d in range(-40, 41):
            v = (1 << e) + d
            if 0 <= v < (1 << 64): cand.append(v)
    ps = [p for p in range(3, 2000) if is_prime(p)]
    for _ in range(150 if quick else 2000):
        p = rng.choice(ps); cand.append(p * p)
        a = rng.getrandbits(31) | 1
        while not is_prime(a): a += 2
        b = a + 2
        while not is_prime(b): b += 2
        cand.append(a * b)
        x = rng.getrandbits(rng.choice([20, 40, 63, 64])) | 1
        cand += [x, x + 2]
    for v in sorted(set(cand)):
        if v < (1 << 64):
            out.append(('mpz_prime %x %x %x' % (v, rng.choice([1, 5, 25, 25, 30]), rng.getrandbits(30)), 'prime'))
    for _ in range(150 if quick else 1500):
        n = rng.choice([rng.randrange(0, 1000), rng.getrandbits(32), rng.getrandbits(53), rng.getrandbits(63), (1 << 32) - rng.randrange(1, 100), (1 << 53) + rng.randrange(-50, 50),
                        1425172824437699411 - rng.randrange(0, 5)])   # start of a maximal prime gap (1132) below 2^64
        out.append(('mpz_nextprime %x' % n, 'nextprime'))
    out.append(('mpz_nextprime -5', 'nextprime-neg'))
    # every start below 3000: the crossover from the table of small primes to the sieve lies in here
    for n in range(0, 1400 if quick else 3000):
        out.append(('mpz_nextprime %x' % n, 'nextprime-small-exhaustive'))
    return out


MODS = [2305843009213693951, 18446744073709551557, 18446744073709551533, 4611686018427387847]

def _sieve(n):
    s = bytearray([1]) * (n + 1); s[0:2] = b'\x00\x00'
    for i in range(2, int(n ** 0.5) + 1):
        if s[i]: s[i * i::i] = bytearray(len(s[i * i::i]))
    return s

def extra(ctx):
    """Sieve-based sizes (several re-sieved blocks of primesieve.c): residues of the library's results against a
    Python oracle (supporting search); a disagreement is then confirmed by evaluating the extracted model on that input."""
    quick = ctx.tier == 'quick'
    ns = [1179700, 1200007] if quick else [1179649, 1179700, 1200007, 2000003, 3000017]
    sv = _sieve(max(ns) + 1)
    lines = []; exp = []
    for n in ns:
        lines.append('mpz_fac_ui %x 1' % n)
        exp.append(['1'] + ['%x' % __import__('functools').reduce(lambda a, k, p=p: a * k % p, range(2, n + 1), 1) for p in MODS])
        lines.append('mpz_primorial_ui %x 1' % n)
        pr = [i for i in range(2, n + 1) if sv[i]]
        exp.append(['1'] + ['%x' % __import__('functools').reduce(lambda a, k, p=p: a * k % p, pr, 1) for p in MODS])
    # binomials on the prime-factor sieve path (exact oracle: Python's math.comb reduced mod the same primes)
    import math, random
    r2 = random.Random('%s/C16/bin-oracle' % ctx.seed)
    smallp = [q for q in range(1000, 160000) if sv[q]]
    for _ in range(60 if quick else 600):
        p_ = r2.choice(smallp)
        n = r2.choice([2 * p_, 2 * p_, 2 * p_ + 1, p_, r2.randrange(2000, 320000)])
        if n < 2100: continue
        lo = max(1001, n // 16 + 1)
        k = r2.choice([lo, n // 2 - 1, n // 2, r2.randrange(lo, n // 2 + 1), n - r2.randrange(lo, n // 2 + 1)])
        lines.append('mpz_bin_uiui %x %x 1' % (n, k))
        c = math.comb(n, k)
        exp.append(['1'] + ['%x' % (c % p) for p in MODS])
    outs = vlib.run_robust(vlib.impl_cmd(ctx.impl), lines, timeout=1500, died='CRASH')
    bad = []
    for ln, o, e in zip(lines, outs, exp):
        if o.split() != e:
            bad.append((ln, o, e))
    ctx.extra_cov['sieve_sized_results_checked'] = len(lines)
    ctx.extra_cov['sieve_sized_n'] = ns
    ev = getattr(ctx, 'extra_violations', [])
    for ln, o, e in bad[:2]:
        note = 'residues of the library result differ from the definition (Python oracle)'
        if ln.startswith('mpz_fac_ui'):
            mo = vlib.run_robust(vlib.model_cmd(), [ln], timeout=1500, died='MODEL-DIED')[0]
            note += '; extracted Coq model on the same input: %s (%s)' % (mo[:200], 'confirms' if mo.split() == e else 'inconclusive')
        ev.append({'kind': 'sieve-size-result', 'cases': [ln], 'implementation_output': o[:400], 'expected': ' '.join(e), 'note': note, 'key': ln,
                   'theorem': 'C16 statement: mpz_fac_ui / mpz_primorial_ui / mpz_bin_uiui return exactly n! / the product of the primes <= n / C(n,k)'})
    ctx.extra_violations = ev
