"""C20 — C++ class expressions evaluate to the same values as the C functions: correspondence cases."""
import os, sys, hashlib, shutil, glob, random
from gen import *
import vlib
sys.path.insert(0, os.path.join(os.path.dirname(os.path.dirname(os.path.abspath(__file__))), 'lib'))
import cxxgen

PID = 'C20'
NTREES = 220
RULE = ('cases = %d random well-typed expression trees (depth up to 4: + - * / %% & | ^ << >> unary - ~ abs sqrt gcd lcm over four mpz_class objects and long / unsigned long / double run-time '
        'arguments and compile-time constants 0 1 2 8 -4 3UL 16UL 0UL -1 64UL on either side), each compiled with the expression templates, x every assignment target a b c d (so the '
        'target occurs inside the tree), compound assignment op= for all eight operators, construction of a new object x values 0, +-1, LONG_MIN/MAX, 2^64+-1, multi-limb, equal '
        'objects; comparison operators / cmp / sgn against objects, long, unsigned long, double (half-integers too); string constructors, set_str, get_str in bases 2..62 and -2..-36, '
        'get_si/get_ui, fits_*; 90 mpq_class trees (+ - * / << >> unary - abs, built-ins incl. half-integral doubles, all targets, compound assignment) on canonical fractions with one- and multi-limb parts; operator<< under all ios flag combinations (dec/hex/oct, showbase, showpos, left/internal/right, uppercase, width) and operator>>; '
        'non-trivial = distinct case line' % NTREES)
EXPLANATION = ('the C++ interface built from /repo (--enable-cxx) vs extracted Coq models (CxxDefs.v: value of an expression = every sub-expression evaluated with the C function; the '
               'evaluation strategy of the expression templates with its temporaries and alias tests; PrintfDefs.v for operator<<); Properties_C20.v proves that the strategy leaves '
               'in ANY destination, also one occurring in the tree, exactly that value and changes nothing else, for every tree, carrier and operator table, and that op= is the '
               'expanded form')
ASSUMPTIONS = ['the strategy model transcribes the eval members of __gmp_expr in mpirxx.h by hand; which template specialisation the compiler selects for a given tree is tied by '
               'execution of the generated trees only', 'mpz_class and mpq_class trees are executed; mpf_class expressions share the proved strategy (the theorem is carrier-independent) but are '
               'not executed: the precision of their temporaries is not modelled', 'the C++ harness is compiled with the host g++ and libstdc++']
TIMEOUT = 1500

def nontrivial(line, tag):
    return True

def canon_impl(out):
    return 'x:' if out and 'CRASH-SIGNAL 8' in out else out

def trees(seed):
    rng = random.Random('C20-trees-%s' % seed)
    ts = []; cops = []
    # hand-picked shapes first: the alias tests and temporaries of every eval member
    V = lambda i: cxxgen.T('var', i); Bt = lambda k: cxxgen.T('blt', k); Bi = lambda op, a, b: cxxgen.T('bin', op, a, b); U = lambda op, e: cxxgen.T('un', op, e)
    fixed = [Bi(1, V(0), Bi(2, V(1), V(2))), Bi(1, Bi(2, V(1), V(2)), V(0)), Bi(0, Bi(2, V(0), V(1)), Bi(2, V(0), V(2))), Bi(1, V(1), Bi(2, V(0), Bi(0, V(2), V(0)))),
             Bi(3, Bt(0), V(0)), Bi(3, V(0), Bt(0)), Bi(4, Bt(0), V(0)), Bi(4, V(0), Bt(0)), Bi(3, Bt(1), V(0)), Bi(4, Bt(1), V(0)), Bi(3, Bt(2), V(0)), Bi(3, V(0), Bt(2)),
             Bi(1, Bt(0), V(0)), Bi(1, Bt(3), V(0)), Bi(2, V(0), Bt(6)), Bi(2, V(0), Bt(7)), Bi(3, V(0), Bt(6)), Bi(3, V(0), Bt(7)), Bi(3, V(0), Bt(4)), Bi(2, V(0), Bt(3)),
             Bi(0, V(0), Bt(3)), Bi(1, V(0), Bt(10)), Bi(4, V(0), Bt(6)), Bi(4, V(0), Bt(7)), Bi(5, V(0), Bt(0)), Bi(6, Bt(0), V(0)), Bi(7, V(0), Bt(1)),
             U(0, Bi(1, V(0), V(1))), U(1, V(0)), U(2, Bi(1, V(0), V(1))), U(3, U(2, V(0))), Bi(8, V(0), V(1)), Bi(9, V(0), Bi(0, V(1), V(0))),
             Bi(10, V(0), Bt(1)), Bi(11, V(0), Bt(1)), Bi(11, Bi(1, V(0), V(1)), Bt(9)), Bi(2, Bi(0, V(1), Bi(2, V(2), V(0))), Bi(0, V(0), V(1))), Bi(3, Bt(11), V(0)), Bi(4, Bt(11), V(0)),
             Bi(3, Bt(7), V(0)), Bi(2, Bt(2), V(0)), Bi(0, Bt(2), Bi(2, V(0), V(0)))]
    for t in fixed:
        ts.append(t); cops.append(rng.randrange(8))
    while len(ts) < NTREES:
        t = cxxgen.gen(rng, rng.choice([1, 2, 2, 3, 3, 4]))
        if t.kind == 'var' or cxxgen.size(t) > 40: continue
        ts.append(t); cops.append(rng.randrange(8))
    return ts, cops

NQTREES = 90
def qtrees(seed):
    rng = random.Random('C20-qtrees-%s' % seed)
    ts = []; cops = []
    V = lambda i: cxxgen.T('var', i); Bt = lambda k: cxxgen.T('blt', k); Bi = lambda op, a, b: cxxgen.T('bin', op, a, b); U = lambda op, e: cxxgen.T('un', op, e)
    fixed = [Bi(1, V(0), Bi(2, V(1), V(2))), Bi(1, Bi(2, V(1), V(2)), V(0)), Bi(0, Bi(2, V(0), V(1)), Bi(3, V(0), V(2))), Bi(3, V(1), Bi(0, V(0), Bi(2, V(2), V(0)))),
             Bi(3, Bt(0), V(0)), Bi(3, V(0), Bt(0)), Bi(3, Bt(1), V(0)), Bi(3, V(0), Bt(2)), Bi(3, Bt(2), V(0)), Bi(1, Bt(0), V(0)), Bi(2, V(0), Bt(6)), Bi(2, V(0), Bt(7)),
             Bi(3, V(0), Bt(6)), Bi(3, V(0), Bt(7)), Bi(2, V(0), Bt(3)), Bi(0, V(0), Bt(2)), Bi(10, V(0), Bt(1)), Bi(11, V(0), Bt(1)), U(0, Bi(1, V(0), V(1))), U(2, Bi(1, V(0), V(1))),
             Bi(2, Bi(0, V(1), Bi(2, V(2), V(0))), Bi(1, V(0), V(1)))]
    for t in fixed:
        ts.append(t); cops.append(rng.randrange(4))
    while len(ts) < NQTREES:
        t = cxxgen.genq(rng, rng.choice([1, 2, 2, 3, 3]))
        if t.kind == 'var' or cxxgen.size(t) > 30: continue
        ts.append(t); cops.append(rng.randrange(4))
    return ts, cops

def build_cxx(ctx):
    """libmpir + libmpirxx built from /repo with --enable-cxx, the generated expression functions and the C++ driver; cached."""
    ts, cops = trees(0)
    qts, qcops = qtrees(0)
    src = cxxgen.source(ts, cops)
    qsrc = cxxgen.source_q(qts, qcops)
    main = open(os.path.join(vlib.ROOT, 'harness', 'cxx', 'xdrv_main.cc')).read()
    key = hashlib.sha256((vlib.tree_hash() + src + qsrc + main).encode()).hexdigest()[:16]
    d = os.path.join(vlib.CACHE, 'cxx-' + key)
    if os.path.exists(os.path.join(d, 'ok')):
        return d
    with vlib.Lock('cxx'):
        if os.path.exists(os.path.join(d, 'ok')):
            return d
        for old in glob.glob(os.path.join(vlib.CACHE, 'cxx-*')):
            shutil.rmtree(old, ignore_errors=True)
        os.makedirs(d)
        scratch = vlib.scratch_dir('mpir-verif-cxx-')
        try:
            vlib.sh(['rsync', '-a', '--exclude', '.git', '--exclude', '*.o', '--exclude', '*.lo', '--exclude', '*.la', '--exclude', '.libs', '--exclude', '.deps', vlib.REPO + '/', scratch + '/'])
            for f in ('config.status', 'config.h', 'Makefile', 'libtool', 'mpir.h', 'config.m4'):
                try: os.unlink(os.path.join(scratch, f))
                except OSError: pass
            vlib.sh('./configure CFLAGS=-Wno-error --enable-cxx --disable-shared', cwd=scratch, timeout=1200)
            rc, out = vlib.sh('make -j%d SUBDIRS="%s cxx"' % (vlib.NCPU, vlib.LIB_SUBDIRS), cwd=scratch, timeout=2400, check=False)
            if rc != 0 or not os.path.exists(os.path.join(scratch, '.libs', 'libmpirxx.a')):
                raise RuntimeError('BUILD-FAILED (--enable-cxx):\n' + out[-3000:])
            os.makedirs(os.path.join(d, 'include'))
            for f in glob.glob(os.path.join(scratch, '*.h')): shutil.copy(f, os.path.join(d, 'include'))
            for f in ('libmpir.a', 'libmpirxx.a'): shutil.copy(os.path.join(scratch, '.libs', f), d)
            open(os.path.join(d, 'xdrv_gen.cc'), 'w').write(src)
            open(os.path.join(d, 'xdrv_genq.cc'), 'w').write(qsrc)
            # the expression functions are split over several translation units to compile in parallel
            from concurrent.futures import ThreadPoolExecutor
            units = [os.path.join(d, 'xdrv_gen.cc'), os.path.join(d, 'xdrv_genq.cc'), os.path.join(vlib.ROOT, 'harness', 'cxx', 'xdrv_main.cc')]
            with ThreadPoolExecutor(3) as ex:
                list(ex.map(lambda u: vlib.sh(['g++', '-O1', '-w', '-c', '-I' + os.path.join(d, 'include'), u, '-o', u[:-3].replace(os.path.join(vlib.ROOT, 'harness', 'cxx'), d) + '.o'], timeout=2400), units))
            vlib.sh(['g++', os.path.join(d, 'xdrv_gen.o'), os.path.join(d, 'xdrv_genq.o'), os.path.join(d, 'xdrv_main.o'),
                     os.path.join(d, 'libmpirxx.a'), os.path.join(d, 'libmpir.a'), '-o', os.path.join(d, 'xdrv')], timeout=2400)
        finally:
            shutil.rmtree(scratch, ignore_errors=True)
        open(os.path.join(d, 'ok'), 'w').write('ok\n')
    return d

VALS = [0, 1, -1, 2, -2, 3, 7, -8, (1 << 63) - 1, -(1 << 63), 1 << 63, (1 << 64) - 1, 1 << 64, -(1 << 64) - 1, 10 ** 30 + 7, -(10 ** 25), (1 << 200) - 1, 255, -256]
def val(rng):
    return rng.choice(VALS + [signed_value(rng, 3), rng.randrange(-100, 100)])

def cases(ctx, tier):
    xd = build_cxx(ctx)
    ctx.impl_cmd = [os.path.join(xd, 'xdrv')]
    rng = ctx.rng('cases')
    quick = tier == 'quick'
    ts, cops = trees(0)
    out = []
    LS = [0, 1, -1, 2, -3, 8, (1 << 63) - 1, -(1 << 63), -(1 << 63) + 1, 1 << 31, -5, 100]
    US = [0, 1, 2, 3, 5, 63, 64, 65, 200, (1 << 64) - 1, 1 << 63]
    XH = [0, 2, -2, 3, -3, 14, -15, 2 * (1 << 52), -(2 * ((1 << 53) - 1)), 2 * 10 ** 15 + 1, 5]
    for i, t in enumerate(ts):
        code = ' '.join(hx(c) for c in cxxgen.code(t))
        n = 0; tries = 0
        want = (14 if quick else 80)
        while n < want and tries < want * 6:
            tries += 1
            env = [val(rng) for _ in range(4)]
            if rng.random() < 0.2: env[1] = env[0]
            if rng.random() < 0.1: env[2] = -env[0]
            l = rng.choice(LS); u = rng.choice(US); xh = rng.choice(XH)
            if u > 4096 and 'blt1' in str([c for c in cxxgen.code(t)]): pass
            blt = [l, u, int(abs(xh) // 2) * (1 if xh >= 0 else -1)] + [cxxgen.CONST_VALUE[k] for k in range(3, 13)]
            dest = rng.choice([0, 1, 2, 3, 0, 4, 5, 6, 7, 8])
            try:
                if 4 <= dest < 8:
                    cxxgen.evaluate(cxxgen.T('bin', cops[i], cxxgen.T('var', dest - 4), t), env, blt)
                else:
                    cxxgen.evaluate(t, env, blt)
            except (cxxgen.DivZero, ValueError, OverflowError):
                continue
            out.append(('cxx %x %x %s %s %s %s %s %x %s %x %s' % (i, dest, hx(env[0]), hx(env[1]), hx(env[2]), hx(env[3]), hx(l), u, hx(xh), cops[i], code), 'tree-depth%d' % min(4, cxxgen.size(t) // 4)))
            n += 1
    # the hand-picked shapes on the boundary values of the built-in types (LONG_MIN / -1, LONG_MIN % -1, 0 - x, ...)
    NFIXED = 42
    for i, t in enumerate(ts[:NFIXED]):
        code = ' '.join(hx(c) for c in cxxgen.code(t))
        for a0 in [-1, 1, 0, 2, -(1 << 63), 1 << 63, (1 << 63) - 1, 1 << 64, -(1 << 63) - 1, -((1 << 64) - 1), (1 << 64) - 1, -(1 << 64), (1 << 63) + 1, -3]:
            for l in [-(1 << 63), (1 << 63) - 1, -1, 0]:
                for u in [0, 1, (1 << 64) - 1, (1 << 63) + 1, 1 << 63]:
                    xh = rng.choice([-2, 3, 2 * (1 << 52)])
                    env = [a0, rng.choice([a0, 5, -7]), 3, -2]
                    blt = [l, u, int(abs(xh) // 2) * (1 if xh >= 0 else -1)] + [cxxgen.CONST_VALUE[k] for k in range(3, 13)]
                    dest = rng.choice([0, 1, 1, 8])
                    try: cxxgen.evaluate(t, env, blt)
                    except (cxxgen.DivZero, ValueError, OverflowError): continue
                    out.append(('cxx %x %x %s %s %s %s %s %x %s %x %s' % (i, dest, hx(env[0]), hx(env[1]), hx(env[2]), hx(env[3]), hx(l), u, hx(xh), cops[i], code), 'tree-boundary-values'))
    # mpq_class trees
    from fractions import Fraction
    qts, qcops = qtrees(0)
    def qval():
        n = rng.choice([0, 1, -1, 2, -3, 7, (1 << 64) - 1, -(1 << 63), 10 ** 20 + 1, rng.randrange(-50, 50), signed_value(rng, 2)])
        dd = rng.choice([1, 1, 2, 3, 5, 8, (1 << 64) + 1, 1 << 64, abs(signed_value(rng, 2)) or 1])
        f = Fraction(n, dd)
        return f
    for i, t in enumerate(qts):
        code = ' '.join(hx(c) for c in cxxgen.code(t))
        n = 0; tries = 0; want = (10 if quick else 60)
        while n < want and tries < want * 6:
            tries += 1
            env = [qval() for _ in range(4)]
            if rng.random() < 0.2: env[1] = env[0]
            l = rng.choice(LS); u = rng.choice([0, 1, 2, 3, 5, 63, 64, 65, 200]); xh = rng.choice([0, 2, -2, 3, -3, 14, -15, 5, 2 * (1 << 40) + 1])
            blt = [Fraction(l), Fraction(u), Fraction(xh, 2)] + [Fraction(cxxgen.CONST_VALUE[k]) for k in range(3, 13)]
            dest = rng.choice([0, 1, 2, 3, 0, 4, 5, 6, 7, 8])
            try:
                if 4 <= dest < 8: cxxgen.evaluate_q(cxxgen.T('bin', qcops[i], cxxgen.T('var', dest - 4), t), env, blt)
                else: cxxgen.evaluate_q(t, env, blt)
            except (cxxgen.DivZero, ZeroDivisionError, OverflowError, ValueError):
                continue
            out.append(('cxxq %x %x %s %s %x %s %x %s' % (i, dest, ' '.join('%s %s' % (hx(f.numerator), hx(f.denominator)) for f in env), hx(l), u, hx(xh), qcops[i], code), 'qtree'))
            n += 1
    for _ in range(300 if quick else 3000):
        a = val(rng); b = rng.choice([a, a, val(rng), a + 1, a - 1, -a])
        out.append(('cxx_cmp %s %s %s %x %s' % (hx(a), hx(b), hx(rng.choice(LS + [a if -(1 << 63) <= a < (1 << 63) else 0])), rng.choice(US + [a if 0 <= a < (1 << 64) else 0]),
                                               hx(rng.choice(XH + [2 * a if abs(a) < (1 << 52) else 0, 2 * a + 1 if abs(a) < (1 << 51) else 1]))), 'compare'))
        out.append(('cxx_conv %s %s' % (hx(val(rng)), hx(rng.choice([2, 3, 8, 10, 16, 36, 37, 62, -2, -16, -36]))), 'convert'))
        out.append(('cxx_io %s %x %x' % (hx(val(rng)), rng.randrange(128), rng.choice([0, 0, 1, 5, 12, 30, 70])), 'stream'))
    return out
