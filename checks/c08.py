"""C08 — powers and modular powers: correspondence cases."""
import os, sys, math
from gen import *
sys.path.insert(0, os.path.join(os.path.dirname(os.path.dirname(os.path.abspath(__file__))), 'translator'))
import gen_tables
import vlib

PID = 'C08'
RULE = ('cases = mpz_powm/powm_ui/pow_ui/ui_pow_ui x bases negative, zero, larger than the modulus, multiples of it x exponents 0, 1, negative (invertible or not), every length up to '
        '2000 bits incl. all-ones and single bit x moduli odd, 2^k, 2^k*odd with whole zero low limbs and every small valuation, +-1, one limb; even bases with one-limb exponents against '
        'moduli odd*2^(64k); REDC inputs just below and above the carry threshold; large moduli (around the REDC/POWM and binvert Newton crossovers, odd limb counts) are products of pairwise '
        'coprime one-limb factors and powers of two, certified by the model through the Chinese remainder theorem; non-trivial = distinct case line')
EXPLANATION = ('implementation vs extracted Coq models (PowDefs.v): mpz_powm wrapper with CRT recombination for even moduli, binary/window exponentiation, limb-level REDC, binvert_limb; '
               'Properties_C08.v proves REDC, the window method, the even-modulus recombination and the wrapper')
ASSUMPTIONS = ['redc_2, redc_n, mpn_powm\'s internal window tables, mpn_powlo and mpn_binvert are tied by execution only', 'division by zero (no inverse, zero modulus) is observed as SIGFPE']
TIMEOUT = 1500

def canon_impl(out):
    return 'x:' if out and 'CRASH-SIGNAL 8' in out else out

def regenerate(ctx):
    ctx.thr = gen_tables.main()[0]

def nontrivial(line, tag):
    return True

def is_prime64(n):
    if n < 2: return False
    for p in (2, 3, 5, 7, 11, 13, 17, 19, 23, 29, 31, 37):
        if n % p == 0: return n == p
    d = n - 1; s = 0
    while d % 2 == 0: d //= 2; s += 1
    for a in (2, 3, 5, 7, 11, 13, 17, 19, 23, 29, 31, 37):
        x = pow(a, d, n)
        if x in (1, n - 1): continue
        for _ in range(s - 1):
            x = x * x % n
            if x == n - 1: break
        else:
            return False
    return True

_PR = []
def primes64(k):
    """k distinct primes just below 2^64 (generator aiming only; the model re-checks coprimality)."""
    n = (1 << 64) - 1
    while len(_PR) < k:
        if is_prime64(n): _PR.append(n)
        n -= 2
    return _PR[:k]

def exponent(rng, maxbits):
    k = rng.random()
    nb = rng.randrange(1, maxbits + 1)
    if k < 0.2: return (1 << nb) - 1
    if k < 0.35: return 1 << (nb - 1)
    if k < 0.45: return rng.choice([0, 1, 2, 3, 64, 65])
    return rng.getrandbits(nb) | (1 << (nb - 1))

def modulus(rng, maxlimbs):
    k = rng.random()
    n = rng.randrange(1, maxlimbs + 1)
    if k < 0.3: return nonzero_top(rng, n) | 1
    if k < 0.4: return 1 << rng.randrange(1, 64 * n)
    if k < 0.6:
        odd = nonzero_top(rng, rng.randrange(1, n + 1)) | 1
        return odd << rng.choice([1, 2, 3, 63, 64, 65, 128, 64 * rng.randrange(1, 4), 64 * rng.randrange(1, 4) + rng.randrange(1, 64)])
    if k < 0.66: return rng.choice([1, 2, 3, 4])
    if k < 0.75: return rng.getrandbits(64) | 1
    return nonzero_top(rng, n)

def cases(ctx, tier):
    rng = ctx.rng('cases')
    quick = tier == 'quick'
    out = []
    for _ in range(1200 if quick else 10000):
        m = modulus(rng, 4) * rng.choice([1, 1, 1, -1])
        b = rng.choice([0, 1, -1, 2, -2, abs(m), abs(m) + 1, -abs(m) - 1, 2 * abs(m), signed_value(rng, 5), signed_value(rng, 2)])
        e = exponent(rng, rng.choice([8, 64, 70, 200, 600]))
        if rng.random() < 0.12:
            e = -e
        out.append(('mpz_powm %s %s %s %d' % (hx(b), hx(e), hx(m), rng.choice([0, 0, 1, 2, 3])), 'powm'))
        eu = rng.choice([0, 1, 2, 19, 20, 21, (1 << 64) - 1, rng.getrandbits(64), rng.getrandbits(10)])
        out.append(('mpz_powm_ui %s %x %s %d' % (hx(b), eu, hx(m), rng.choice([0, 0, 1, 3])), 'powm_ui'))
    # even base, one-limb exponent, modulus odd * 2^(64k): the shortcut for b^e = 0 mod 2^t
    for _ in range(600 if quick else 5000):
        k = rng.randrange(1, 4); odd = nonzero_top(rng, rng.randrange(1, 3)) | 1
        t = 64 * k + rng.choice([0, 0, 0, 1, 5, 63])
        m = odd << t
        vb = rng.choice([1, 2, 3, 4, 7, 33]); b = (rng.getrandbits(rng.choice([3, 60, 130])) | 1) << vb
        e = rng.choice([t // vb - 1, t // vb, t // vb + 1, max(2, (64 * (k - 1)) // min(vb, 3)), max(2, (64 * (k - 1)) // min(vb, 3) + 1), 2, 5, rng.randrange(2, 200)])
        e = max(2, e)
        out.append(('mpz_powm %s %s %s 0' % (hx(b * rng.choice([1, -1])), hx(e), hx(m)), 'powm-even-valuation'))
        out.append(('mpz_powm_ui %s %x %s 0' % (hx(b), e, hx(m)), 'powm_ui-even-valuation'))
    # moduli next to a power of the limb base, bases next to the modulus or to B^(n-1) (fewer limbs than the modulus), of either
    # sign, exponents 1, 2, 3: m - |b| then has several zero high limbs (the e = 1 shortcut subtracts without dividing)
    for _ in range(400 if quick else 4000):
        k = rng.randrange(1, 5)
        m = (1 << (64 * k)) + rng.choice([0, 0, 1, 1, 2, 3, rng.getrandbits(10), rng.getrandbits(64), -1, -2, -rng.getrandbits(10) - 1])
        d = rng.choice([0, 1, 1, 2, 3, rng.getrandbits(10), rng.getrandbits(64), rng.getrandbits(64 * rng.randrange(1, k + 1))])
        b = rng.choice([m - d, (1 << (64 * k)) - d, (1 << (64 * k)) - 1 - d, (1 << (64 * rng.randrange(1, k + 1))) - d])
        b = max(0, b) * rng.choice([1, -1, -1])
        e = rng.choice([1, 1, 1, 2, 3, rng.getrandbits(7)])
        out.append(('mpz_powm %s %s %s %d' % (hx(b), hx(e), hx(m * rng.choice([1, 1, -1])), rng.choice([0, 0, 1, 2, 3])), 'powm-near-modulus'))
        out.append(('mpz_powm_ui %s %x %s %d' % (hx(b), e, hx(m), rng.choice([0, 0, 1, 3])), 'powm_ui-near-modulus'))
    # the as-coded models of mpn_powm and of the mpz_powm wrapper (window sizes 1..6 by exponent length, windows straddling limb
    # boundaries, exponents with low zero bytes, bases longer and shorter than the modulus, every wrapper path)
    for _ in range(120 if quick else 1500):
        n = rng.choice([1, 1, 2, 2, 3, 4])
        m = nonzero_top(rng, n, rng.choice(['uniform', 'ones', 'top1', 'runs', 'sparse'])) | 1
        b = nonzero_top(rng, rng.choice([1, n, n, n + 2]), rng.choice(['uniform', 'ones', 'runs', 'sparse']))
        eb = rng.choice([2, 3, 7, 8, 24, 25, 26, 64, 65, 81, 82, 128, 241, 242, 243, 300, 673, 674, 675])
        e = (rng.getrandbits(eb) | (1 << (eb - 1))) if rng.random() < 0.7 else ((rng.getrandbits(eb) | (1 << (eb - 1))) >> rng.choice([8, 16])) << rng.choice([8, 16])
        if e < 2: e = 2
        out.append(('mpn_powm %s %s %s' % (hx(b), hx(e), hx(m)), 'mpn_powm-as-coded'))
    for _ in range(200 if quick else 2500):
        k = rng.randrange(1, 4)
        m = rng.choice([nonzero_top(rng, k) | 1, nonzero_top(rng, k) << rng.choice([1, 3, 63, 64, 65, 128]), 1 << rng.randrange(1, 200), 3 << 63, 1, 2, 4,
                        (1 << (64 * k)) + rng.choice([0, 1, 2]), nonzero_top(rng, k, 'runs') | 1]) * rng.choice([1, 1, -1])
        b = rng.choice([0, 1, -1, 2, 6, -4, signed_value(rng, 3), abs(m) - 1, -(abs(m) - 1), abs(m), (1 << (64 * k)) - 1, -((1 << (64 * k)) - 1), rng.getrandbits(64 * k + 70)])
        e = rng.choice([0, 1, 1, 2, 3, 19, 20, 21, 64, (1 << 63), (1 << 64) - 1, 1 << 64, (1 << 64) + 1, rng.getrandbits(rng.choice([5, 30, 70, 130])), -1, -2, -rng.getrandbits(20)])
        out.append(('mpz_powm_c %s %s %s %d' % (hx(b), hx(e), hx(m), rng.choice([0, 0, 1, 2, 3])), 'mpz_powm-as-coded'))
    out.append(('mpz_powm 5 3 0 0', 'powm-zero-modulus'))
    out.append(('mpz_powm 2 -1 8 0', 'powm-no-inverse'))
    out.append(('mpz_powm 6 -5 9 0', 'powm-no-inverse'))
    # exact powers
    for _ in range(300 if quick else 3000):
        b = rng.choice([0, 1, -1, 2, -2, 3, 10, (1 << 64) - 1, -(1 << 64), signed_value(rng, 3), 1 << rng.randrange(1, 200), 3 << rng.randrange(1, 100)])
        e = rng.choice([0, 1, 2, 3, 5, 8, 13, 31, 32, 33, 64, rng.randrange(0, 80)])
        if abs(b).bit_length() * e < 60000:
            out.append(('mpz_pow_ui %s %x %d' % (hx(b), e, rng.getrandbits(1)), 'pow_ui'))
        u = abs(b) % (1 << 64)
        if u.bit_length() * e < 60000:
            out.append(('mpz_ui_pow_ui %x %x' % (u, e), 'ui_pow_ui'))
    # REDC at limb level
    for n in range(1, 13 if quick else 40):
        for _ in range(20 if quick else 60):
            m = nonzero_top(rng, n, rng.choice(['uniform', 'ones', 'top63', 'top1', 'runs'])) | 1
            k = rng.random()
            Bn = 1 << (64 * n)
            if k < 0.3: t = rng.randrange(m * Bn)
            elif k < 0.5: t = m * Bn - 1 - rng.getrandbits(10)
            elif k < 0.7: t = Bn * Bn - 1 - rng.getrandbits(64)
            else: t = limbs_value(rng, 2 * n)
            out.append(('mpn_redc_1 %x %s %s' % (n, hx(t), hx(m)), 'redc_1'))
    return out

def redc_n_cases(ctx, tier):
    rng = ctx.rng('redc_n'); quick = tier == 'quick'; out = []
    # the n-limb REDC (odd parts of REDC_1_TO_REDC_N_THRESHOLD limbs and more) called directly: operands made of long runs of one and
    # zero bits, sparse, all ones, B^n - c; the product q*m is formed modulo B^rn - 1 and unwrapped with a borrow
    T = getattr(ctx, 'thr', None) or gen_tables.main()[0]
    rn0 = max(9, T.get('REDC_1_TO_REDC_N_THRESHOLD') or T.get('REDC_2_TO_REDC_N_THRESHOLD') or 100)
    for _ in range(320 if quick else 2000):
        n = rng.choice([9, 16, 33, rn0, rn0 + 1, rn0 + 28, 127, 128, 129, 200, 256, 257]) if rng.random() < 0.5 else rng.randrange(9, 270)
        shape = rng.choice(['runs', 'runs', 'runs', 'sparse', 'ones', 'uniform', 'pow2m1'])
        k = rng.random()
        if k < 0.6: m = nonzero_top(rng, n, shape) | 1
        elif k < 0.8: m = (1 << (64 * n)) - (rng.choice([1, 3, rng.getrandbits(64), rng.getrandbits(10)]) | 1)
        else: m = ((1 << (64 * n - rng.randrange(0, 64))) - 1) | (1 << (64 * n - 1))
        Bn = 1 << (64 * n)
        hi = limbs_value(rng, n, rng.choice(['runs', 'runs', 'sparse', 'uniform', 'ones'])) % m
        lo = limbs_value(rng, n, rng.choice(['runs', 'runs', 'sparse', 'uniform', 'ones', 'zero']))
        if rng.random() < 0.3:
            x = limbs_value(rng, n, 'runs') % m; lo = (x * x) % Bn; hi = (x * x) >> (64 * n)
            if hi >= m: hi %= m
        out.append((n, hi * Bn + lo, m))
    return out

def big(ctx, tier):
    rng = ctx.rng('big')
    T = getattr(ctx, 'thr', None) or gen_tables.main()[0]
    quick = tier == 'quick'
    sizes = set([5, 8, 13, 20, 31, 32, 33])
    for k in ('REDC_1_TO_REDC_2_THRESHOLD', 'REDC_2_TO_REDC_N_THRESHOLD', 'REDC_1_TO_REDC_N_THRESHOLD', 'POWM_THRESHOLD', 'POWLO_THRESHOLD'):
        if T.get(k) and T[k] < 400:
            sizes.update([T[k] - 1, T[k], T[k] + 1])
    sizes.update([299, 300, 301, 303] if quick else [299, 300, 301, 302, 303, 401, 606, 607])   # binvert Newton chain (BINV_NEWTON_THRESHOLD 300)
    res = []
    P = primes64(700)
    for n in sorted(s for s in sizes if s >= 2):
        for variant in (('odd',), ('even', rng.choice([1, 7, 64, 65, 130]))) if n < 200 or not quick else (('odd',),):
            fs = rng.sample(P, n if variant[0] == 'odd' else max(1, n - (variant[1] + 63) // 64))
            if variant[0] == 'even':
                fs = fs + [1 << variant[1]]
            m = 1
            for f in fs: m *= f
            b = rng.choice([rng.getrandbits(64 * 2) | 1, -(rng.getrandbits(70) | 1), rng.getrandbits(64 * n + 10), 2 * (rng.getrandbits(100) | 1)])
            e = exponent(rng, 40 if n > 100 else 300)
            if e < 2: e = 65537
            res.append((b, e, m, fs))
    return res

def extra(ctx):
    cases = big(ctx, ctx.tier)
    lines = ['mpz_powm %s %s %s 0' % (hx(b), hx(e), hx(m)) for b, e, m, fs in cases]
    outs = vlib.run_robust(vlib.impl_cmd(ctx.impl), lines, timeout=1500, died='CRASH')
    cert = []; bad = []
    for (b, e, m, fs), ln, o in zip(cases, lines, outs):
        t = o.split()
        if len(t) != 2:
            bad.append((ln, o, 'malformed or flagged output')); cert.append(None); continue
        cert.append('powmcheck %s %s %s %s' % (hx(b), hx(e), t[0], ' '.join(hx(f) for f in fs)))
    cl = [c for c in cert if c]
    mo = vlib.run_robust(vlib.model_cmd(), cl, timeout=1500, died='MODEL-DIED') if cl else []
    it = iter(mo); nb = 0
    for ln, c in zip(lines, cert):
        if c is None: continue
        m = next(it)
        if vlib.timed_out(ctx, m): continue
        nb += 1
        if m.strip() != '1':
            bad.append((ln, c[:3000], 'model rejects the CRT certificate: ' + m[:80]))
    ctx.extra_cov['large_powm_certified'] = nb
    ctx.extra_cov['large_powm_modulus_limbs'] = sorted(set((m.bit_length() + 63) // 64 for b, e, m, fs in cases))
    ev = getattr(ctx, 'extra_violations', [])
    for ln, o, why in bad[:3]:
        ev.append({'kind': 'large-powm-certificate', 'cases': [ln[:200000]], 'implementation_output': o[:3000], 'note': why, 'key': ln[:200],
                   'theorem': 'C08_powm (result = b^e mod |m| in [0,|m|)) via the Chinese remainder theorem over pairwise coprime factors'})
    # the n-limb REDC called directly, decided by the model-evaluated certificate R * B^n = T (mod M), 0 <= R < M
    rc = redc_n_cases(ctx, ctx.tier)
    rl = ['mpn_redc_n %x %s %s' % (n, hx(t), hx(m)) for n, t, m in rc]
    ro = vlib.run_robust(vlib.impl_cmd(ctx.impl), rl, timeout=1500, died='CRASH')
    cl = []; keep = []
    for (n, t, m), ln, o in zip(rc, rl, ro):
        tk = o.split()
        if len(tk) != 1 or not all(ch in '0123456789abcdef' for ch in tk[0]):
            ev.append({'kind': 'redc_n', 'cases': [ln[:100000]], 'implementation_output': o[:2000], 'note': 'crash, red zone or malformed output', 'key': 'redc_n crash', 'theorem': 'C08 (REDC returns T * B^-n mod M)'}); continue
        cl.append('redcncheck %x %s %s %s' % (n, hx(t), hx(m), tk[0])); keep.append((ln, o))
    mo = vlib.run_robust(vlib.model_cmd(), cl, timeout=1500, died='MODEL-DIED') if cl else []
    nrej = 0
    for (ln, o), mres in zip(keep, mo):
        if vlib.timed_out(ctx, mres) or mres.strip() == '1': continue
        nrej += 1
        if nrej <= 2:
            ev.append({'kind': 'redc_n', 'cases': [ln[:100000]], 'implementation_output': o[:3000], 'note': 'the model rejects the REDC certificate (%s): the result is not the canonical residue T * B^-n mod M' % mres[:30], 'key': ln[:200],
                       'theorem': 'C08 (REDC returns T * B^-n mod M, the precondition of the window loop of mpn_powm)'})
    ctx.extra_cov['redc_n_direct_certified'] = len(cl) - nrej; ctx.extra_cov['redc_n_direct_cases'] = len(rc)
    ctx.extra_violations = ev
