"""C18 — formatted output and input: correspondence cases."""
import re, os, sys, itertools
from gen import *
import vlib

PID = 'C18'
RULE = ('cases = full cross product of flag subsets {-,+,space,#,0} (32, each in canonical and in a shuffled / duplicated order) x width {none, 1, len-1.., 12, 30, *+, *-} x precision '
        '{none, ".", .0, .1, .4, .25, .*+, .*0, .*-} x conversions d i o x X x types Z (and Q, N, M on a thinner grid) x values {0, +-1, 8, 255, LONG_MAX, LONG_MIN, 2^64-1, 2^64, '
        '30-digit, 100-digit of both signs}; every buffer size 0..len+2 for gmp_snprintf with guard bytes; five mixed standard/MPIR templates; print-then-scan round trips through '
        'gmp_sscanf and gmp_fscanf in seven print styles; texts with 0..3 fields, leading/trailing white space and garbage for the C-style count; non-trivial = distinct case line')
EXPLANATION = ('implementation vs extracted Coq models (PrintfDefs.v: the C99 layout rules, the doprnt.c spec parser and doprnti.c layout as coded, the snprntffuns.c sink) and vs the C '
               'library on long values; Properties_C18.v proves that the library layout equals the C99 layout for every flag sequence, width, precision, conversion and integer value outside '
               'the documented deviations, and that the bounded sink never stores more than size-1 bytes plus the terminator while returning the full length')
ASSUMPTIONS = ['the C library used for the three-way comparison is the host glibc', '%F conversions (doprntf.c) are compared by a model-evaluated certificate only (value within one unit of the last printed digit, layout form)',
               'doscan.c is tied by round trips and C-style counts, it has no structural model']
TIMEOUT = 1500

FL = '-+ #0'
def nontrivial(line, tag):
    return True

def flag_strings(rng):
    out = []
    for k in range(6):
        for sub in itertools.combinations(FL, k):
            out.append(''.join(sub))
            s = list(sub); rng.shuffle(s)
            if rng.random() < 0.3 and s: s.append(rng.choice(s))
            out.append(''.join(s))
    return out

VALS = [0, 1, -1, 8, 255, -255, (1 << 63) - 1, -(1 << 63), (1 << 64) - 1, 1 << 64, -(1 << 64), 10 ** 29 + 7, -(10 ** 29 + 7), 10 ** 99 + 12345, -(7 ** 120)]

def cases(ctx, tier):
    rng = ctx.rng('cases')
    quick = tier == 'quick'
    out = []
    fls = flag_strings(rng)
    widths = ['', '1', '5', '12', '30', '*+', '*-']
    precs = ['', '.', '.0', '.1', '.4', '.25', '.*+', '.*0', '.*-']
    for fl in fls:
        for w in widths:
            for p in precs:
                for conv in 'dioxX':
                    vals = [rng.choice(VALS[:8]), rng.choice(VALS)] if quick else VALS
                    if quick and rng.random() < 0.55:
                        vals = vals[:1]
                    for v in vals:
                        stars = []
                        ws = w
                        if w.startswith('*'):
                            stars.append(rng.choice([3, 9, 20]) * (1 if w[1] == '+' else -1)); ws = '*'
                        ps = p
                        if p.startswith('.*'):
                            stars.append({'+': rng.choice([1, 6, 22]), '0': 0, '-': rng.choice([-1, -5])}[p[2]]); ps = '.*'
                        spec = fl + ws + ps
                        s1 = stars[0] if len(stars) > 0 else 0; s2 = stars[1] if len(stars) > 1 else 0
                        out.append(('gmp_printf_Z %s %x %d %s %s %s' % (hb(spec.encode()), ord(conv), len(stars), hx(s1), hx(s2), hx(v)), 'Z-%s' % conv))
    # Q, N, M on a thinner grid
    for _ in range(1500 if quick else 15000):
        fl = rng.choice(fls); w = rng.choice(['', '3', '14', '40']); conv = rng.choice('dioxX')
        n = rng.choice(VALS); d = rng.choice([1, 1, 2, 3, 255, (1 << 64) + 1, 10 ** 20 + 1, 8])
        if rng.random() < 0.1: n = 0
        out.append(('gmp_printf_Q %s %x 0 0 0 %s %s' % (hb((fl + w).encode()), ord(conv), hx(n), hx(d)), 'Q-%s' % conv))
        p = rng.choice(['', '', '.0', '.3', '.30'])
        x = rng.choice(VALS); nl = (abs(x).bit_length() + 63) // 64 + rng.choice([0, 0, 1, 2])
        out.append(('gmp_printf_N %s %x %s %x' % (hb((fl + w + p).encode()), ord(conv), hx(x), nl), 'N-%s' % conv))
        mfl = fl if conv in 'di' else fl.replace('+', '').replace(' ', '')
        out.append(('gmp_printf_M %s %x %x' % (hb((mfl + w + p).encode()), ord(rng.choice('dioxXu') if not ('+' in mfl or ' ' in mfl) else conv),
                                               rng.choice([0, 1, (1 << 63) - 1, 1 << 63, (1 << 64) - 1, rng.getrandbits(64)])), 'M'))
    # every buffer size
    for _ in range(120 if quick else 1200):
        fl = rng.choice(fls); w = rng.choice(['', '3', '14']); p = rng.choice(['', '.0', '.9']); conv = rng.choice('dioxX')
        out.append(('gmp_snprintf_sweep %s %x %s' % (hb((fl + w + p).encode()), ord(conv), hx(rng.choice(VALS[:13]))), 'snprintf-sweep'))
    # mixed formats
    for _ in range(300 if quick else 3000):
        out.append(('gmp_printf_mixed %d %s %x %s %s %s' % (rng.randrange(5), hx(rng.choice([0, 1, -1, 32767, -32768, 127, -129, (1 << 63) - 1, -(1 << 63), rng.getrandbits(40)])),
                                                         rng.choice([0, 1, (1 << 64) - 1, rng.getrandbits(64)]), hx(rng.choice(VALS)), hx(rng.choice(VALS)), hx(rng.choice([1, 2, 3, 10 ** 20 + 1]))), 'mixed'))
    # print then scan
    for _ in range(600 if quick else 6000):
        mode = rng.randrange(14)
        x = rng.choice(VALS + [signed_value(rng, 4)]); n = rng.choice(VALS + [signed_value(rng, 3)]); d = rng.choice([1, 2, 3, 255, 10 ** 20 + 1, abs(signed_value(rng, 2)) or 1])
        out.append(('gmp_scan_rt %x %s %s %s %s' % (mode, hx(x), hx(n), hx(d), hx(rng.choice([0, -1, 5, (1 << 63) - 1, -(1 << 63)]))), 'scan-roundtrip'))
    for _ in range(300 if quick else 3000):
        k = rng.randrange(0, 4)
        t = b''
        for i in range(k):
            t += rng.choice([b'', b' ', b'\n', b'\t  ']) if i == 0 else rng.choice([b' ', b'\n', b'  '])
            t += str(rng.choice([0, 5, -7, 10 ** 25, -(10 ** 30) - 1, rng.getrandbits(70)])).encode()
        t += rng.choice([b'', b'', b' ', b'\n', b' x', b'x', b' -x', b' .5'])
        out.append(('gmp_scan_partial %d %s' % (rng.getrandbits(1), hb(t)), 'scan-count'))
    # the as-coded model of doscan.c: every curated (directive, input) pair and random multi-directive formats, through the string
    # reader (final position observed) and through gmp_fscanf on a stream (position by ftell: every look-ahead byte pushed back)
    import scangen
    seen = set()
    for fm, inp, sl in scangen.gen_tests(ctx.rng('doscan'), 1500 if quick else 20000):
        if len(fm) > 2000 or len(inp) > 2000 or 0 in fm: continue
        for mode in (0, 1):
            if mode == 1 and (0 in inp or not inp): continue
            # a standard conversion is handed to the C library, which reads the stream itself: where it stops after a failed
            # match is the C library's business; the stream position is compared for formats of MPIR conversions and literals only
            if mode == 1 and re.search(rb'%[*0-9]*l?d', fm): continue
            ln = 'gmp_doscan %s %s %s %d' % (hb(fm), hb(inp), hb(sl.encode()), mode)
            if ln in seen: continue
            seen.add(ln)
            out.append((ln, 'doscan-string' if mode == 0 else 'doscan-stream'))
    return out

# ---- %Fe / %Ff through a certificate evaluated by the model ----
def f_cases(ctx, tier):
    rng = ctx.rng('F')
    res = []
    from fractions import Fraction
    def dy(x, fb=64):
        m = int(x * (1 << fb)); return m, -fb
    targets = []
    for k in (1, 2, 3, 10):
        top = 1 << (64 * k)
        for frac in (Fraction(46, 100), Fraction(2046, 10000), Fraction(1, 2) - Fraction(1, 10 ** 9), Fraction(999999, 1000000), Fraction(1, 3)):
            for ip in (top - 1, top - rng.getrandbits(20), top // 2 + 1, top, top + 1, 10 ** 19, 18 * 10 ** 18, 10 ** 19 - 1, 10 ** (19 * k), (top * 15) // 16 + rng.getrandbits(30)):
                targets.append(ip + frac)
    for _ in range(60 if tier == 'quick' else 600):
        targets.append(Fraction(rng.getrandbits(rng.randrange(1, 200)), 1 << rng.randrange(0, 100)))
        targets.append(Fraction(rng.getrandbits(60) | 1, 10 ** rng.randrange(1, 40)))
    targets += [Fraction(0), Fraction(1), Fraction(1, 2), Fraction(5, 2), Fraction(999, 1000), Fraction(9999999, 10000000), Fraction(10 ** 30 - 1), Fraction(1, 10 ** 30)]
    for x in targets:
        m, e = dy(x, rng.choice([64, 64, 128]))
        if rng.random() < 0.3: m = -m
        for conv in 'fe':
            P = rng.choice([0, 0, 1, 2, 2, 6, 20])
            fl = rng.choice(['', '', '-', '+', ' ']); w = rng.choice([0, 0, 30, 70])
            spec = fl + (str(w) if w else '') + '.' + str(P)
            res.append((spec, conv, P, w, m, e))
    return res

def extra(ctx):
    cs = f_cases(ctx, ctx.tier)
    lines = ['gmp_printf_F %s %x 40 %s %s' % (hb(spec.encode()), ord(conv), hx(m), hx(e)) for spec, conv, P, w, m, e in cs]
    outs = vlib.run_robust(vlib.impl_cmd(ctx.impl), lines, timeout=600, died='CRASH')
    certs = []; origin = []; bad = []
    for (spec, conv, P, w, m, e), ln, o in zip(cs, lines, outs):
        t = o.split()
        if len(t) != 2 or not t[0].startswith('x:'):
            bad.append((ln, o, 'malformed or flagged output')); continue
        if int(t[1], 16) != (len(t[0]) - 2) // 2:
            bad.append((ln, o, 'return value is not the length')); continue
        certs.append('ffmtcheck %x %x %x %s %s %s' % (ord(conv), P, w, hx(m), hx(e), t[0])); origin.append((ln, o))
    mo = vlib.run_robust(vlib.model_cmd(), certs, timeout=600, died='MODEL-DIED') if certs else []
    n_ok = 0
    for (ln, o), m in zip(origin, mo):
        if m.strip() == '1': n_ok += 1
        elif vlib.timed_out(ctx, m): pass
        else:
            try: txt = bytes.fromhex(o.split()[0][2:]).decode('latin1')
            except Exception: txt = '?'
            bad.append((ln, o, 'the model rejects the %%F certificate: printed "%s" (%s)' % (txt[:120], m[:40])))
    ctx.extra_cov['F_conversion_certificates'] = n_ok; ctx.extra_cov['F_conversion_cases'] = len(cs)
    ev = getattr(ctx, 'extra_violations', [])
    for ln, o, why in bad[:3]:
        ev.append({'kind': 'F-conversion-certificate', 'cases': [ln], 'implementation_output': o[:2000], 'note': why, 'key': ln[:200],
                   'theorem': 'C18 (%F follows the manual: the printed decimal is the value rounded to the requested digits, laid out as C does)'})
    ctx.extra_violations = ev
