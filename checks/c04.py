"""C04 — memory, allocator contract, well-formed objects: histories of API calls."""
import os, sys, re
from gen import *
sys.path.insert(0, os.path.join(os.path.dirname(os.path.dirname(os.path.abspath(__file__))), 'translator'))
import gen_protos, gen_tables
import c05

PID = 'C04'
RULE = ('cases = (F) random histories of 30..80 modelled operations (init/init2/clear/realloc2/set/set_ui/neg/abs/swap/add/sub/add_ui/sub_ui/mul_2exp/mul) over 6 variables, '
        'compared with the model on every variable\'s (alloc, value) and on the exact allocator event trace; (A) random histories over every function of the regenerated prototype '
        'table plus init/clear/realloc2/limbs_write/finish, string input of arbitrary bytes, raw I/O of arbitrary byte streams, run under the recording allocator '
        '(exact-size check on reallocate/free, red zones, always-moving poisoning realloc, live-block accounting) and replayed with every destination pre-shrunk and pre-grown; '
        'non-trivial = distinct history')
EXPLANATION = ('Properties_C04.v proves for the allocation state machine that every operation leaves every variable well formed (requested allocation suffices for the result), '
               'that the bytes held always equal the net of the event trace (so clearing everything returns the heap to empty) and that values do not depend on allocations; '
               'histF ties the state machine to the code event by event; histA monitors the functions outside the model')
ASSUMPTIONS = ['reads/writes inside mpn routines are observed through red zones and poisoning only', 'functions outside the modelled set have runtime monitoring only (histA)',
               'obsolete functions with hidden global state and mpz_array_init are excluded as the property states']
TIMEOUT = 1200

def regenerate(ctx):
    ctx.thr = gen_tables.main()[0]

def nontrivial(line, tag):
    return len(line.split()) > 6

def histF(rng, nv=6, nops=60):
    toks = ['histF', '%x' % nv]
    live = [False] * nv
    def emit(*a): toks.extend(hx(x) if isinstance(x, int) else x for x in a)
    for k in range(nv):
        if rng.random() < 0.8:
            if rng.getrandbits(1): emit(1, k)
            else: emit(2, k, rng.choice([0, 1, 64, 65, 200, 640]))
            live[k] = True
    for _ in range(nops):
        c = rng.choice([1, 2, 3, 4, 4, 5, 6, 6, 7, 8, 9, 10, 10, 11, 12, 13, 14, 15, 15, 15])
        w = rng.randrange(nv); u = rng.randrange(nv); v = rng.randrange(nv)
        if c == 1: emit(1, w)
        elif c == 2: emit(2, w, rng.choice([0, 1, 64, 65, 129, 1000]))
        elif c == 3: emit(3, w) if rng.random() < 0.3 else emit(6, w, rng.getrandbits(64))
        elif c == 4: emit(4, w, rng.choice([0, 1, 63, 64, 65, 128, 200, 640, 1300, rng.randrange(0, 3000)]))
        elif c in (5, 7, 8, 9): emit(c, w, u)
        elif c == 6: emit(6, w, rng.choice([0, 1, (1 << 64) - 1, rng.getrandbits(64)]))
        elif c in (10, 11, 15): emit(c, w, u, v)
        elif c in (12, 13): emit(c, w, u, rng.choice([0, 1, (1 << 64) - 1, rng.getrandbits(64)]))
        elif c == 14: emit(14, w, u, rng.choice([0, 1, 63, 64, 65, 130, rng.randrange(0, 400)]))
    return ' '.join(toks)

GUARD_DIV = re.compile(r'div|mod|cong|invert|gcdext|reldiff')
def histA(rng, protos, nops=30, sep=False):
    toks = ['histA', '3']
    for k in range(8): toks += ['zinit', str(k)] if rng.getrandbits(1) else ['zinit2', str(k), hx(rng.choice([0, 64, 200, 1000]))]
    for k in range(4): toks += ['qinit', str(k)]
    for k in range(4): toks += ['finit2', str(k), hx(rng.choice([53, 64, 65, 128, 129, 400]))]
    import math
    def zv(nonzero=False, nonneg=False, big=None):
        x = c05.zvalue(rng, 'div' if nonzero else 'x', big=(rng.random() < 0.3) if big is None else big)
        return abs(x) if nonneg else x
    for k in range(8): toks += ['zset', str(k), hx(zv())]
    for k in range(4):
        n = zv(); d = abs(zv(True)); g = math.gcd(n, d); toks += ['qset', str(k), hx(n // g), hx(d // g)]
    for k in range(4): toks += ['fset', str(k), hx(zv()), hx(rng.choice([0, -1, 5, -64, 64, -200]))]
    names = [p for p in protos if p[0] not in ('mpq_set_num', 'mpq_set_den', 'mpz_swap', 'mpq_swap', 'mpf_swap')]
    for _ in range(nops):
        if sep: toks.append('|')
        r = rng.random()
        if r < 0.06: toks += ['zrealloc2', str(rng.randrange(8)), hx(rng.choice([64, 128, 1000, 6400]))]
        elif r < 0.10: toks += ['zgetstr', str(rng.randrange(8)), hx(rng.choice([2, 3, 10, 16, 36, 62, -2, -36]))]
        elif r < 0.16:
            base = rng.choice([0, 2, 8, 10, 16, 36, 62])
            kind = rng.random()
            if kind < 0.5:
                s = ('%d' % zv()).encode()
            elif kind < 0.75:
                s = bytes(rng.choice(b'0123456789abcdefxXzZ -+\t\n_.!') for _ in range(rng.randrange(0, 30)))
            else:
                s = ('%x' % abs(zv())).encode(); pos = rng.randrange(len(s) + 1); s = s[:pos] + bytes([rng.randrange(1, 256)]) + s[pos:]
            toks += ['zsetstr', str(rng.randrange(8)), hx(base), hb(s)]
        elif r < 0.175:
            k = rng.randrange(8); nd = rng.choice([1, 2, 15, 16, 17, 31, 32, 33, 63, 64, 65, 127, 128, 129, 255, 256, 257, 511, 512, 513, rng.randrange(1, 600)])
            f = rng.randrange(10)
            v = 10 ** (nd - 1) + rng.randrange(10 ** (nd - 1)) if f in (0, 2, 3, 5, 8) else (1 << (4 * (nd - 1))) + rng.getrandbits(4 * (nd - 1)) if nd > 1 else rng.randrange(1, 10)
            if f in (0, 5) and rng.random() < 0.4: v = -(10 ** (nd - 2) + rng.randrange(10 ** (nd - 2))) if nd > 2 else -v
            toks += ['zset', str(k), hx(v), 'zasprintf', str(k), hx(f)]
        elif r < 0.18:
            ln = rng.choice([100, 5000, 65534, 65535, 65536, 70000, 131072]); bp = rng.choice([-1, -1, 0, 1, ln // 2, ln - 1])
            toks += ['zsetstr_long', str(rng.randrange(8)), hx(rng.choice([10, 10, 16, 9, 36])), hx(ln), hx(bp)]
        elif r < 0.22:
            kind = rng.random()
            if kind < 0.4:
                v = abs(zv()); nb = (v.bit_length() + 7) // 8; body = v.to_bytes(nb, 'big')
                hdr = ((nb if rng.getrandbits(1) else (1 << 32) - nb) % (1 << 32)).to_bytes(4, "big"); s = hdr + body
                if rng.random() < 0.5: s = s[:rng.randrange(0, len(s) + 1)]          # truncated stream
            elif kind < 0.6:
                # a byte count larger than the value needs: whole zero limbs at the top of the data
                body = bytes(rng.randrange(0, 33)) + bytes(rng.getrandbits(8) for _ in range(rng.randrange(0, 20)))
                s = ((len(body) if rng.getrandbits(1) else (1 << 32) - len(body)) % (1 << 32)).to_bytes(4, "big") + body
            else:
                s = bytes(rng.getrandbits(8) for _ in range(rng.randrange(0, 12)))
                if len(s) >= 4: s = (bytes([0, 0, rng.choice([0, 0, 1]), s[3]]) if s[0] < 128 else bytes([255, 255, rng.choice([255, 255, 254]), s[3]])) + s[4:]
            toks += ['zinp_raw', str(rng.randrange(8)), hb(s)]
        elif r < 0.235:
            lo = rng.choice([1, 1, 90, 140, 300, 700, rng.randrange(1, 1500)])
            toks += ['inp_str_sweep', str(rng.randrange(3)), str(rng.randrange(8)), hx(rng.choice([10, 10, 16, 2, 36, 62])), hx(lo), hx(lo + rng.choice([40, 120, 400]))]
        elif r < 0.25: toks += ['zout_raw', str(rng.randrange(8))]
        elif r < 0.28: toks += ['zlimbs', str(rng.randrange(8)), hx(rng.randrange(1, 12)), hx(rng.choice([0, 1, 2, (1 << 64) - 1, rng.getrandbits(64)]))]
        elif r < 0.31: toks += ['fsetprec', str(rng.randrange(4)), hx(rng.choice([53, 64, 128, 200, 1000]))]
        elif r < 0.36:
            k = rng.randrange(8); toks += ['zclear', str(k), 'zinit', str(k), 'zset', str(k), hx(zv())]
        else:
            name, kinds, rk, ret, al = rng.choice(names)
            objs = [k for k in kinds if k in 'ZzQqFf']
            # choose indices: outputs distinct from each other
            idx = []; used_out = {'z': set(), 'q': set(), 'f': set()}
            for k in objs:
                fam = 'z' if k in 'Zz' else 'q' if k in 'Qq' else 'f'
                n = 8 if fam == 'z' else 4
                for attempt in range(20):
                    x = rng.randrange(n)
                    if k.isupper() and x in used_out[fam]: continue
                    break
                if k.isupper(): used_out[fam].add(x)
                idx.append((fam, x, k))
            # an output index must not coincide with another output; inputs may alias anything
            outs = [(f, x) for f, x, k in idx if k.isupper()]
            if len(set(outs)) < len(outs):
                continue
            scal = [c05.scalar(rng, name, k) for k in kinds if k not in 'ZzQqFf']
            if re.search(r'div|mod', name): scal = [s if s != 0 else 7 for s in scal]
            pre = []
            zin = [(i, x) for i, (f, x, k) in enumerate(idx) if f == 'z']
            # guards for preconditions (set the sensitive operands just before the call)
            if name == 'mpz_divexact':
                dv = zv(True); pre += ['zset', str(idx[2][1]), hx(dv)]
                if idx[1][1] != idx[2][1]: pre += ['zset', str(idx[1][1]), hx(dv * (zv() or 1))]
            elif name == 'mpz_divexact_ui':
                pre += ['zset', str(idx[1][1]), hx(scal[0] * zv())]
            elif name == 'mpz_remove':
                f = rng.choice([2, 3, 6, (1 << 64) + 1]); pre += ['zset', str(idx[2][1]), hx(f)]
                if idx[1][1] != idx[2][1]: pre += ['zset', str(idx[1][1]), hx(f ** rng.randrange(0, 4) * (zv() or 1))]
            elif name == 'mpz_powm':
                pre += ['zset', str(idx[2][1]), hx(rng.getrandbits(rng.choice([3, 10, 70])))]
                if idx[3][1] != idx[2][1]: pre += ['zset', str(idx[3][1]), hx(zv(True))]
                else: pre = ['zset', str(idx[2][1]), hx(rng.getrandbits(20) + 1)]
            elif name == 'mpz_powm_ui': pre += ['zset', str(idx[2][1]), hx(zv(True))]
            elif name == 'mpz_jacobi': pre += ['zset', str(idx[1][1]), hx(abs(zv(True)) | 1)]
            elif re.search(r'sqrt|root', name) and name.startswith('mpz'):
                src = [x for f, x, k in idx if k == 'z']; pre += ['zset', str(src[0]), hx(zv(nonneg=True))]
            elif GUARD_DIV.search(name) and name.startswith('mpz'):
                src = [x for f, x, k in idx if k == 'z']
                if src: pre += ['zset', str(src[-1]), hx(zv(True))]
            elif name in ('mpq_div', 'mpq_inv'):
                src = [x for f, x, k in idx if k == 'q']
                n = zv(True); d = abs(zv(True)); g = math.gcd(n, d); pre += ['qset', str(src[-1]), hx(n // g), hx(d // g)]
            elif name in ('mpf_div', 'mpf_ui_div', 'mpf_reldiff'):
                src = [x for f, x, k in idx if k == 'f']; pre += ['fset', str(src[-1] if name != 'mpf_reldiff' else src[0]), hx(zv(True)), hx(rng.choice([0, -3, 70]))]
            elif name == 'mpf_sqrt':
                src = [x for f, x, k in idx if k == 'f']; pre += ['fset', str(src[0]), hx(zv(nonneg=True)), hx(rng.choice([0, -3, 70]))]
            elif rng.random() < 0.3 and zin:
                i0, x0 = rng.choice(zin); pre += ['zset', str(x0), hx(zv())]
            args = []; oi = 0; si = 0
            for k in kinds:
                if k in 'ZzQqFf': args.append(str(idx[oi][1])); oi += 1
                else: args.append(hx(scal[si])); si += 1
            toks += pre + ['call', name] + args
    return ' '.join(toks)

def split_ops(line):
    """(setup tokens, list of op token lists) of a histA line generated with sep=True"""
    parts = line.split(' | ')
    return parts[0], parts[1:]

def cases(ctx, tier):
    rng = ctx.rng('cases')
    protos = gen_protos.main()
    out = []
    nF = 3000 if tier == 'quick' else 30000
    nA = 3000 if tier == 'quick' else 30000
    for _ in range(nF):
        out.append((histF(rng, 6, rng.randrange(30, 81)), 'histF'))
    for _ in range(nA):
        out.append((histA(rng, protos, rng.randrange(15, 40)), 'histA'))
    return out
