"""C19 — random numbers: correspondence cases."""
import os, sys
from gen import *
import vlib

PID = 'C19'
RULE = ('cases = call sequences (1..12 calls) interleaving mpz_urandomb / urandomm / rrandomb, mpn_urandomb / urandomm / randomb / rrandom, gmp_urandomb_ui / urandomm_ui, mpf_urandomb with '
        'bit counts 0, 1, 31..33, 63..65, 127..129, large; moduli 1, 2, 3, 2^k, 2^k+-1, multi-limb, negative; on the Mersenne Twister (default state regenerated from randmt.c; seeded '
        'states dumped from the implementation), lc_2exp with even and odd m2exp from 1 to 300 incl. 64k+-1, multipliers 0, 1, a = 5 mod 8, larger than 2^m, every lc_2exp_size 1..128 and '
        'unsupported sizes; seeds 0, 1, 2^32, 2^64, multi-limb, 2^19937-20027 and neighbours, negative; a gmp_randinit_set copy taken at every position; a second state seeded identically; '
        'per-bit and per-bucket frequency over 20 000 draws for every generator kind; non-trivial = distinct case line')
EXPLANATION = ('implementation vs extracted Coq models (RandDefs.v: MT recalculation/tempering/bit extraction with the REGENERATED default state and constants, the LC recurrence and its '
               'high-half concatenation, rejection sampling, run-length generation, mpf_urandomb); Properties_C19.v proves ranges for every generator that honours its bit count, the MT '
               'extraction as a prefix of the 32-bit output stream, the LC output as the concatenated high halves, and the rejection sampling bounds')
ASSUMPTIONS = ['the Mersenne Twister seeding function (powering modulo 2^19937-20023) is compared with an independent Python computation (test oracle), not with a Coq model: Coq binary '
               'arithmetic on 20 000-bit numbers is too slow to run it', 'uniformity is a statistical statement: frequencies over 20 000 draws are accepted within five standard deviations '
               'by a model-evaluated criterion; the theorem for the LC generator is that only the high half of every X reaches the caller',
               'termination of the rejection loops is probabilistic and not proved (acceptance probability at least 1/2 per draw is)']
TIMEOUT = 1500

def nontrivial(line, tag):
    return True

def canon_impl(out):
    return 'x:' if out and 'CRASH-SIGNAL 8' in out else out

BITS = [0, 1, 2, 31, 32, 33, 63, 64, 65, 95, 96, 97, 127, 128, 129, 200, 1000]
def modulus(rng):
    k = rng.random()
    if k < 0.15: return rng.choice([1, 2, 3, 4, 5, 7, 8])
    if k < 0.35: return 1 << rng.choice([1, 31, 32, 63, 64, 65, 127, 128, 200])
    if k < 0.5: return (1 << rng.choice([2, 31, 32, 63, 64, 65, 128])) + rng.choice([-1, 1])
    if k < 0.6: return -(rng.getrandbits(rng.randrange(2, 130)) | 2)
    return nonzero_top(rng, rng.randrange(1, 5))

def calls(rng, n, norej=False):
    out = []
    for _ in range(n):
        code = rng.choice([1, 1, 3, 4, 6, 9, 10] if norej else [1, 1, 2, 2, 3, 4, 5, 6, 7, 8, 9, 10])
        a, b = 0, 0
        if code in (1, 3, 4): a = rng.choice(BITS)
        if code == 3: a = rng.choice([0, 1, 2, 5, 31, 32, 33, 64, 65, 100, 128, 300])
        if code == 2: a = modulus(rng)
        if code == 5: a = abs(modulus(rng))
        if code == 6: a = rng.choice([0, 1, 31, 32, 33, 63, 64, 65, 100])
        if code == 7: a = rng.choice([1, 2, 3, 4, 5, 1 << 31, (1 << 32) - 1, 1 << 32, (1 << 63) + 1, 1 << 63, (1 << 64) - 1, rng.getrandbits(64) | 1])
        if code in (8, 9): a = rng.choice([1, 1, 2, 3, 5])
        if code == 10: a = rng.choice([53, 64, 128, 200]); b = rng.choice([0, 1, 2, 31, 64, 65, 128, 129, 500])
        out.append('%x %s %x' % (code, hx(a), b))
    return out

def kinds(rng, quick):
    ks = [('0 0 0 0', 'mt')] * 3 + [('3 0 0 0', 'default')]
    for m in [1, 2, 3, 31, 32, 33, 63, 64, 65, 100, 127, 128, 129, 255, 256, 257, 300] + [rng.randrange(1, 300) for _ in range(4 if quick else 40)]:
        # degenerate recurrences (a = 0, 1, even c) and tiny moduli get no rejection-sampling calls: they may never accept
        deg = m < 16 or rng.random() < 0.2
        a = rng.choice([0, 1, 4, 5]) if deg else rng.choice([0x29CF535, (rng.getrandbits(m + 10) & ~7) | 5, (rng.getrandbits(max(3, m - 1)) & ~7) | 5])
        c = rng.choice([0, 1, 2, 12345, (1 << 64) - 1]) if deg else rng.choice([1, 1, 12345, (1 << 64) - 1])
        ks.append(('1 %s %x %x' % (hx(a), c, m), 'lc_2exp-m%s%s' % ('odd' if m % 2 else 'even', '-degenerate' if deg else '')))
    for size in ([1, 16, 17, 20, 28, 32, 50, 64, 100, 128, 129] if quick else list(range(1, 131))):
        ks.append(('2 %x 0 0' % size, 'lc_2exp_size'))
    return ks

SEEDS = [0, 1, 2, 42, (1 << 32) - 1, 1 << 32, (1 << 64) - 1, 1 << 64, (1 << 200) + 12345, -1, -(1 << 70)]

def cases(ctx, tier):
    rng = ctx.rng('cases')
    quick = tier == 'quick'
    out = []
    for rep in range(6 if quick else 40):
        for k, tag in kinds(rng, quick):
            nc = rng.randrange(1, 13)
            cs = calls(rng, nc, norej=tag.endswith('degenerate'))
            mt = k.startswith('0') or k.startswith('3')
            if mt:
                mode, seed = 0, 0
            else:
                mode = rng.choice([0, 1, 1, 2]); seed = rng.choice(SEEDS + [signed_value(rng, 4)])
                if mode == 2: seed = abs(seed) % (1 << 64)
            copyat = rng.choice([-1, 0, 0, rng.randrange(0, nc)])
            out.append(('rand %s %d %s %s 0 %x %s' % (k, mode, hx(seed), hx(copyat), nc, ' '.join(cs)), tag))
    # long draws: across several buffer refills of the Mersenne Twister, with the copy taken before, between and after them
    for k, tag in [('0 0 0 0', 'mt-long'), ('3 0 0 0', 'default-long'), ('2 20 0 0', 'lc-long'), ('1 %s 1 %x' % (hx(0x292787EBD3329AD7E7575E2FD), 101), 'lc-long')]:
        for copyat in (0, 1, 2):
            cs = ['1 %x 0' % rng.choice([15000, 16000, 20000]), '4 %x 0' % rng.choice([4000, 20001]), '1 %x 0' % 40000, '6 40 0', '1 %x 0' % 21000]
            out.append(('rand %s 0 0 %x 0 %x %s' % (k, copyat, len(cs), ' '.join(cs)), tag))
    return out

# ---- Mersenne Twister seeding: independent computation of randseed_mt (test oracle) ----
def mt_seed_state(seed):
    mod = (1 << 19937) - 20027
    s1 = seed % mod + 2
    e = 0x40118124; bit = 0x20000000
    b = s1; r = s1
    def reduce(r):
        while True:
            t = r >> 19937
            if t == 0: return r
            r = (r & ((1 << 19937) - 1)) + t * 20023
    while bit:
        r = reduce(r * r)
        if e & bit:
            e &= ~bit
            r = reduce(r * b)
        bit >>= 1
    mt = [0] * 624
    mt[0] = 0x80000000 if (r >> 19936) & 1 else 0
    r &= ~(1 << 19936)
    i = 1
    while r:
        mt[i] = r & 0xffffffff; r >>= 32; i += 1
    # warm up: WARM_UP / N recalculations
    def recalc(mt):
        N, M, A = 624, 397, 0x9908B0DF
        for kk in range(N - M):
            y = (mt[kk] & 0x80000000) | (mt[kk + 1] & 0x7FFFFFFF); mt[kk] = mt[kk + M] ^ (y >> 1) ^ (A if y & 1 else 0)
        for kk in range(N - M, N - 1):
            y = (mt[kk] & 0x80000000) | (mt[kk + 1] & 0x7FFFFFFF); mt[kk] = mt[kk - (N - M)] ^ (y >> 1) ^ (A if y & 1 else 0)
        y = (mt[N - 1] & 0x80000000) | (mt[0] & 0x7FFFFFFF); mt[N - 1] = mt[M - 1] ^ (y >> 1) ^ (A if y & 1 else 0)
    for _ in range(2000 // 624):
        recalc(mt)
    w = 0
    for x in reversed(mt): w = (w << 32) | x
    return 2000 % 624, w

def extra(ctx):
    rng = ctx.rng('extra')
    quick = ctx.tier == 'quick'
    ev = getattr(ctx, 'extra_violations', [])
    # (a) seeded Mersenne Twister: dump the state, run the model from it, compare the seeding with the oracle
    lines = []; seeds = []
    big = [(1 << 19937) - 20027, (1 << 19937) - 20028, (1 << 19937) - 20026, (1 << 19937) + 5, 1 << 19936]
    for s in SEEDS + big + [signed_value(rng, 6) for _ in range(6 if quick else 60)]:
        mode = 1
        if 0 <= s < (1 << 64) and rng.random() < 0.5: mode = 2
        nc = rng.randrange(1, 10); cs = calls(rng, nc)
        lines.append('rand %d 0 0 0 %d %s %s 1 %x %s' % (rng.choice([0, 3]), mode, hx(s), hx(rng.choice([-1, 0, nc // 2])), nc, ' '.join(cs))); seeds.append(s)
    outs = vlib.run_robust(vlib.impl_cmd(ctx.impl), lines, timeout=900, died='CRASH')
    ml = []; keep = []
    n_seed_ok = 0
    for ln, o, s in zip(lines, outs, seeds):
        t = o.split()
        if len(t) < 2 or any(not ishex(v) for v in t):
            ev.append({'kind': 'mt-seeded', 'cases': [ln[:20000]], 'implementation_output': o[:2000], 'note': 'malformed or flagged output', 'key': ln[:200], 'theorem': 'C19 (same seed / copy give the same sequence)'}); continue
        mti, w = int(t[0], 16), int(t[1], 16)
        emti, ew = mt_seed_state(s)
        if (mti, w) != (emti, ew):
            ev.append({'kind': 'mt-seeding', 'cases': [ln[:20000]], 'implementation_output': o[:300], 'note': 'state after gmp_randseed differs from the independent computation of randseed_mt (seed %s)' % hx(s)[:80], 'key': 'seed ' + hx(s)[:100], 'theorem': 'C19 (reproducible from the seed)'})
        else:
            n_seed_ok += 1
        f = ln.split()
        ml.append('rand_from_mt %s %s %s' % (t[0], t[1], ' '.join(f[9:]))); keep.append((ln, ' '.join(t[2:])))
    mo = vlib.run_robust(vlib.model_cmd(), ml, timeout=900, died='MODEL-DIED') if ml else []
    n_ok = 0
    for (ln, io), m in zip(keep, mo):
        if io.split() == m.split(): n_ok += 1
        elif vlib.timed_out(ctx, m): pass
        else: ev.append({'kind': 'mt-seeded', 'cases': [ln[:20000]], 'implementation_output': io[:1500], 'model_output': m[:1500], 'note': 'outputs differ from the model run from the dumped state', 'key': ln[:200], 'theorem': 'C19_mt_stream'})
    ctx.extra_cov['mt_seeded_sequences_agree'] = n_ok; ctx.extra_cov['mt_seeding_matches_oracle'] = n_seed_ok
    # (b) frequencies
    bl = []
    nd = 20000 if quick else 100000
    gens = ['0 0 0 0', '1 %s 1 %x' % (hx(0x29CF535), 32), '1 %s 1 %x' % (hx(0x51F666D), 33), '1 %s 1 %x' % (hx(0x292787EBD3329AD7E7575E2FD), 100), '1 %s 1 %x' % (hx(0x292787EBD3329AD7E7575E2FD), 101),
            '1 %s 1 %x' % (hx(0xBAECD515DAF0B49D), 63), '1 %s 1 %x' % (hx(0xBAECD515DAF0B49D), 65), '1 %s 1 %x' % (hx(0x48A74F367FA7B5C8ACBB36901308FA85), 129),
            '2 10 0 0', '2 20 0 0', '2 40 0 0', '2 80 0 0']
    for g in gens:
        for fn, nb in ((1, 150), (4, 130), (6, 64)):
            bl.append('rand_bias %s %x %d %x %x' % (g, rng.getrandbits(40), fn, nb, nd))
        bl.append('rand_bias %s %x 2 %s %x' % (g, rng.getrandbits(40), hx(rng.choice([10 ** 6 + 3, (1 << 64) + 13, 3 * (1 << 62)])), nd))
    bo = vlib.run_robust(vlib.impl_cmd(ctx.impl), bl, timeout=1500, died='CRASH')
    cl = []; origin = []
    for ln, o in zip(bl, bo):
        t = o.split()
        if not t or any(not ishex(v) for v in t):
            ev.append({'kind': 'frequency', 'cases': [ln], 'implementation_output': o[:1500], 'note': 'malformed or flagged output', 'key': ln[:200], 'theorem': 'C19 (ranges)'}); continue
        cl.append(('bucketcheck ' if ln.split()[6] == '2' else 'biascheck ') + ' '.join(t)); origin.append((ln, o))
    co = vlib.run_robust(vlib.model_cmd(), cl, timeout=900, died='MODEL-DIED') if cl else []
    n_f = 0
    for (ln, o), m in zip(origin, co):
        if m.strip() == '1': n_f += 1
        elif vlib.timed_out(ctx, m): pass
        else:
            t = [int(v, 16) for v in o.split()]
            worst = sorted(range(1, len(t)), key=lambda i: -abs(t[i] - t[0] / (8 if ln.split()[6] == '2' else 2)))[:6]
            ev.append({'kind': 'frequency', 'cases': [ln], 'implementation_output': o[:1500], 'note': 'grossly non-uniform: positions %s have frequencies %s of %d draws' % ([i - 1 for i in worst], [t[i] for i in worst], t[0]),
                       'key': ' '.join(ln.split()[:5] + ln.split()[6:7]), 'theorem': 'C19 (not grossly non-uniform in any single bit position)'})
    ctx.extra_cov['frequency_runs_accepted'] = n_f; ctx.extra_cov['frequency_runs'] = len(bl)
    ctx.extra_violations = ev[:6] if len(ev) > 6 else ev

def ishex(v):
    v = v[1:] if v.startswith('-') else v
    return bool(v) and all(ch in '0123456789abcdef' for ch in v)


def search(ctx, failed):
    """Directed search when an obligation of Properties_C19.v no longer checks.  The parameter table of gmp_randinit_lc_2exp_size:
    for every row that misses the full-period conditions (c odd, a = 5 mod 8) generators of the sizes that select the row are
    seeded with 0, 1 and multiples of 2^m and the per-bit frequencies of their output are judged by the model's certificate."""
    names = [o['name'] for o in failed]
    if not any('lc_schemes' in n for n in names):
        return None
    sys.path.insert(0, os.path.join(os.path.dirname(os.path.dirname(os.path.abspath(__file__))), 'translator'))
    import gen_rand
    try:
        rows = gen_rand.parse_lc_schemes()
    except Exception:
        return None
    bad = [(m, a, c) for (m, a, c) in rows if c % 2 == 0 or a % 8 != 5]
    prev = {}
    ms = sorted(m for m, a, c in rows)
    for m, a, c in bad:
        lo = max([x for x in ms if x < m] + [0]) // 2 + 1
        for size in sorted(set([lo, m // 2, (lo + m // 2) // 2])):
            for seed in (0, 1 << (m + 104), 1, 12345):
                ln = 'rand_bias 2 %x 0 0 %s 1 %x %x' % (size, hx(seed), min(size, 64), 4000)
                o = vlib.run_robust(vlib.impl_cmd(ctx.impl), [ln], timeout=300, died='CRASH')[0]
                t = o.split()
                if not t or any(not ishex(v) for v in t):
                    continue
                mres = vlib.run_robust(vlib.model_cmd(), ['biascheck ' + ' '.join(t)], timeout=300, died='MODEL-DIED')[0]
                if mres.strip() != '1' and not mres.startswith('MODEL-DIED'):
                    return {'cases': [ln], 'implementation_output': o[:600], 'expected': 'every bit position set in roughly half of the 4000 draws',
                            'note': 'row m2exp = %d of the lc_2exp_size table has a = %d mod 8, c = %d; generator of size %d seeded with %s' % (m, a % 8, c, size, hx(seed))}
    return None
