"""C01 — multiplication: correspondence cases aimed at every crossover of the size
dispatch of the tree's current tuning table, and at worst-case data."""
import os, sys
from gen import *
sys.path.insert(0, os.path.join(os.path.dirname(os.path.dirname(os.path.abspath(__file__))), 'translator'))
import gen_tables

PID = 'C01'
RULE = ('cases = multiplication entry point x (un, vn) chosen at every point where the predicted algorithm of mpn_mul/mpn_mul_n/mpn_sqr changes '
        '(computed from the thresholds regenerated from the tree) +-1, all pairs <= 24, strips, FFT sizes where (depth,w) changes x data shape '
        '(all-ones, runs, single bit, uniform, equal operands as same pointer); exact comparison with the extracted model up to 128 limbs, '
        'residues modulo four 61..64-bit moduli above; non-trivial = distinct case line with both operands non-zero')
EXPLANATION = ('implementation vs extracted Coq models: limb-level mul_1/addmul_1/submul_1/mul_basecase, value-level Karatsuba, Z.mul as the proved specification for mpn_mul/mul_n/sqr '
               'in every regime, the mpz wrappers, and the model of mpn_mul_fft_main parameter selection compared with the (depth,w) observed by link-time wrapping')
ASSUMPTIONS = ['Toom-3/4/8h interpolation, the FFT butterflies and the assembly sqr_basecase are tied by execution only (no limb-level model)',
               'above 128 limbs results are compared through residues modulo four moduli (justified by C01_mul_residues); a wrong result passes with probability about 2^-240']
TIMEOUT = 1500


def regen(ctx):
    d, tabs, ship = gen_tables.main()
    return d

def regenerate(ctx):
    ctx.thr = regen(ctx)

def predict_mul(un, vn, T):
    """Python transcription of mpn_mul's dispatch (generator aiming only)."""
    K = T.get('MUL_KARATSUBA_THRESHOLD', 17); T3 = T.get('MUL_TOOM3_THRESHOLD', 98); T4 = T.get('MUL_TOOM4_THRESHOLD', 148)
    T8 = T.get('MUL_TOOM8H_THRESHOLD', 238); F = T.get('MUL_FFT_FULL_THRESHOLD', 3520)
    if un == vn:
        n = un
        return 'n:' + ('base' if n < K else 'kara' if n < T3 else 'toom3' if n < T4 else 'toom4' if n < T8 else 'toom8h' if n < F else 'fft')
    if vn < K:
        return 'base' if un <= 500 else 'base-strips%d' % min(3, un // 500)
    if un + vn >= 2 * F and 3 * vn >= F:
        return 'fft'
    k = (un + 3) // 4
    if un + vn >= 2 * T8 and vn >= 86 and 4 * un <= 13 * vn:
        return 'toom8h'
    if un + vn >= 2 * T4:
        if vn > 3 * k:
            return 'toom4'
        l = (un + 4) // 5
        if (((vn > 9 * k // 4) and (un + vn <= 6 * T4)) or ((vn > 2 * l) and (un + vn > 6 * T4))) and vn <= 3 * l:
            return 'toom53'
    if un + vn >= 2 * T3 and vn > k:
        if vn < 2 * k:
            return 'toom42'
        l = (un + 2) // 3
        return 'toom3' if vn > 2 * l else 'toom32'
    return 'mul_n-strips'

def fft_choice(n1, n2, tab):
    def bits_(d, w): return ((1 << d) * w - (d + 1)) // 2
    def tr(d, w):
        b = bits_(d, w); return (n1 * 64 - 1) // b + 1 + (n2 * 64 - 1) // b + 1 - 1
    d, w = 6, 1
    while tr(d, w) > 4 * (1 << d):
        if w == 1: w = 2
        else: d += 1; w = 1
    if d < 11:
        off = tab[d - 6][w - 1]; d -= off; w *= 1 << (2 * off)
        wadj = 1 << (6 - d) if d < 6 else 1
        if w > wadj:
            while True:
                w -= wadj
                if not (tr(d, w) <= 4 * (1 << d) and w > wadj): break
            w += wadj
        return (1, d, w)
    if tr(d, w) <= 3 * (1 << d): d -= 1; w *= 3
    return (2, d, w)

def matcher(line, impl, model):
    """Toom evaluation points: when the implementation could not observe them (count 0: recursion through a call inside the
    routine's own file, which link-time wrapping cannot intercept) only the product is compared."""
    if line.startswith(('mpn_toom3_points', 'mpn_toom4_points')):
        a = impl.split(); b = model.split()
        return len(a) == 2 and a[0] == '0' and len(b) > 2 and a[-1] == b[-1]
    return False

def nontrivial(line, tag):
    toks = line.split()
    return len([t for t in toks[1:] if len(t) > 1]) >= 2

def valid(line):
    toks = line.split()
    op = toks[0]
    try:
        if op in ('mpn_mul', 'mpn_mul_big', 'mpn_mul_basecase'):
            return int(toks[1], 16) >= int(toks[3], 16) >= 1
    except Exception:
        return False
    return True

DATA = ['ones', 'uniform', 'runs', 'onebit', 'pow2m1', 'lowzero', 'topmax', 'top1', 'sparse']

def cases(ctx, tier):
    rng = ctx.rng('cases')
    T = getattr(ctx, 'thr', None) or regen(ctx)
    out = []
    quick = tier == 'quick'
    EXACT = 96 if quick else 160           # exact comparison up to this many limbs per operand
    def mulcase(op, un, vn, same=0, shape=None, tag=''):
        u = limbs_value(rng, un, shape or rng.choice(DATA))
        v = u if same else limbs_value(rng, vn, shape or rng.choice(DATA))
        big = max(un, vn) > EXACT or (un + vn > EXACT and min(un, vn) > 24)
        name = op + ('_big' if big and op in ('mpn_mul', 'mpn_mul_n', 'mpn_sqr') else '')
        if big and op not in ('mpn_mul', 'mpn_mul_n', 'mpn_sqr', 'mpn_mul_fft_main'):
            return
        out.append(('%s %x %s %x %s %d' % (name, un, hx(u), vn, hx(v), same), tag or op))
    # 1. one-limb multiplier kernels, every n up to 40
    for n in range(1, 41 if quick else 100):
        for _ in range(3):
            u = limbs_value(rng, n); r = limbs_value(rng, n); v = limb(rng)
            out.append(('mpn_mul_1 %x %s %x %d' % (n, hx(u), v, rng.getrandbits(1)), 'mul_1'))
            out.append(('mpn_addmul_1 %x %s %s %x %d' % (n, hx(r), hx(u), v, 0), 'addmul_1'))
            out.append(('mpn_submul_1 %x %s %s %x %d' % (n, hx(r), hx(u), v, 0), 'submul_1'))
        ones = (1 << (64 * n)) - 1
        out.append(('mpn_mul_1 %x %x %x 0' % (n, ones, B - 1), 'mul_1-max'))
        out.append(('mpn_addmul_1 %x %x %x %x 0' % (n, ones, ones, B - 1), 'addmul_1-max'))
        out.append(('mpn_submul_1 %x 0 %x %x 0' % (n, ones, B - 1), 'submul_1-max'))
        out.append(('mpn_addmul_1 %x %x %x %x 1' % (n, ones, ones, B - 1), 'addmul_1-same'))
        out.append(('mpn_submul_1 %x %x %x %x 1' % (n, limbs_value(rng, n), 0, limb(rng)), 'submul_1-same'))
    # 2. all pairs up to 24 (basecase, karatsuba entry), all-ones and random
    lim = 24 if quick else 40
    for un in range(1, lim + 1):
        for vn in range(1, un + 1):
            mulcase('mpn_mul', un, vn, 0, 'ones', 'pairs-ones')
            mulcase('mpn_mul', un, vn, 0, None, 'pairs')
            if vn <= 16:
                mulcase('mpn_mul_basecase', un, vn, 0, None, 'basecase')
        mulcase('mpn_mul', un, un, 1, None, 'pairs-same')
        mulcase('mpn_mul_n', un, un, 0, None, 'mul_n')
        mulcase('mpn_sqr', un, un, 1, None, 'sqr')
        if un >= 4:
            mulcase('mpn_kara_mul_n', un, un, 0, None, 'kara')
            mulcase('mpn_kara_mul_n', un, un, 0, 'ones', 'kara')
    # 3. balanced sizes at every crossover +-1 (mul_n and sqr tables)
    mt = [T.get(k) for k in ('MUL_KARATSUBA_THRESHOLD', 'MUL_TOOM3_THRESHOLD', 'MUL_TOOM4_THRESHOLD', 'MUL_TOOM8H_THRESHOLD') if T.get(k)]
    st = [T.get(k) for k in ('SQR_BASECASE_THRESHOLD', 'SQR_KARATSUBA_THRESHOLD', 'SQR_TOOM3_THRESHOLD', 'SQR_TOOM4_THRESHOLD', 'SQR_TOOM8_THRESHOLD') if T.get(k)]
    F = T.get('MUL_FFT_FULL_THRESHOLD', 3520); SF = T.get('SQR_FFT_FULL_THRESHOLD', 2016)
    bal = size_set(mt + st + [2 * t for t in mt] + ([] if quick else [3 * t for t in mt]), extra=[33, 34, 35, 50, 64, 65, 127, 128, 129])
    for n in bal:
        for shape in (['ones', None] if quick else ['ones', None, 'runs', 'lowzero', 'onebit']):
            mulcase('mpn_mul_n', n, n, 0, shape, 'bal')
            mulcase('mpn_sqr', n, n, 1, shape, 'bal-sqr')
            mulcase('mpn_mul', n, n, 1, shape, 'bal-same')
        if 4 <= n <= EXACT:
            mulcase('mpn_kara_mul_n', n, n, 0, None, 'kara')
    # 4. unbalanced: for each un, the vn at which the predicted algorithm changes, +-1
    uns = size_set(mt + [2 * t for t in mt], extra=[40, 60, 100, 200, 300, 499, 500, 501, 520, 1000, 1001, 1500] + ([] if quick else [700, 800, 2000, 2500, 3000]))
    seen = set()
    for un in uns:
        prev = None; pts = set([1, 2, un - 1])
        for vn in range(1, un):
            p = predict_mul(un, vn, T)
            if p != prev:
                pts.update([vn - 1, vn, vn + 1]); prev = p
        for vn in sorted(pts):
            if 1 <= vn < un and (un, vn) not in seen:
                seen.add((un, vn))
                p = predict_mul(un, vn, T)
                mulcase('mpn_mul', un, vn, 0, 'ones', 'unbal-' + p.split(':')[-1])
                mulcase('mpn_mul', un, vn, 0, None, 'unbal-' + p.split(':')[-1])
    # carry chains across a whole strip: a slice c of u with c*v = -1 (mod B^k), so that adding the
    # strip product back ripples a carry through every limb of the slice
    for _ in range(40 if quick else 400):
        if rng.getrandbits(1):
            vn = rng.randrange(2, max(3, T.get('MUL_KARATSUBA_THRESHOLD', 17))); k = 500; un = rng.choice([1001, 1200, 1500, 1700])
        else:
            vn = rng.randrange(T.get('MUL_KARATSUBA_THRESHOLD', 17), 40); k = vn; un = rng.randrange(3 * vn + 1, 6 * vn)
        v = limbs_value(rng, vn, 'uniform') | 1 | (1 << (64 * vn - 1))
        c = (-pow(v, -1, 1 << (64 * k))) % (1 << (64 * k))
        u = limbs_value(rng, un, 'uniform')
        nsl = un // k
        for j in range(nsl):
            if rng.random() < 0.6:
                u = (u & ~(((1 << (64 * k)) - 1) << (64 * k * j))) | (c << (64 * k * j))
        u |= 1 << (64 * un - 1)
        big = un > EXACT
        out.append(('%s %x %s %x %s 0' % ('mpn_mul_big' if big else 'mpn_mul', un, hx(u), vn, hx(v)), 'strip-carry-' + predict_mul(un, vn, T).split(':')[-1]))
    for _ in range(150 if quick else 1200):
        un = int(2 ** rng.uniform(1, 10.5 if quick else 11.5)); vn = rng.randrange(1, un + 1)
        mulcase('mpn_mul', un, vn, 0, None, 'rand-' + predict_mul(un, vn, T).split(':')[-1])
    # 5. FFT: around the FFT thresholds and at sizes where (depth, w) changes
    tabs = gen_tables.parse_mparam(os.path.realpath(os.path.join(os.environ.get('VERIF_REPO', '/repo'), 'gmp-mparam.h')))[1]
    ft = tabs.get('FFT_TAB', (None, [4, 3, 3, 3, 2, 2, 2, 1, 1, 0]))[1]
    tab = [(ft[i], ft[i + 1]) for i in range(0, len(ft) - 1, 2)]
    fsz = []
    for n in (F - 1, F, F + 1, SF - 1, SF, SF + 1):
        if n > 60:
            fsz.append((n, n))
    prev = None
    top = 6000 if quick else 40000
    n = max(200, min(F, SF) // 2)
    changes = []
    while n < top:
        c = fft_choice(n, n, tab)
        if c != prev:
            changes.append(n); prev = c
        n += 1 if n < 3000 else 7
    for n in changes[: (10 if quick else 60)]:
        fsz += [(n - 1, n - 1), (n, n)]
    for (a, b) in fsz:
        if a < 128: continue
        for shape in ['ones', None, 'onebit']:
            mulcase('mpn_mul_fft_main', a, b, 0, shape, 'fft-main')
    # mpn_toom3_mul_n called directly: the operands of its five recursive products (evaluation points, sign of the point at -1)
    # and the product against the Toom-3 model (C01_toom3_mul); every n mod 3, r = n - 2k from 1 to k
    for n in (list(range(17, 60)) + [97, 98, 99, 100, 101, 147, 148, 149, 200] if quick else list(range(17, 260))):
        for shape in (['uniform', 'ones', 'runs'] if quick else ['uniform', 'ones', 'runs', 'top1', 'lowzero', 'sparse']):
            a = limbs_value(rng, n, shape); b = limbs_value(rng, n, rng.choice([shape, 'uniform']))
            if rng.random() < 0.3:      # a0 + a2 close to a1: the sign of the point at -1 flips on a single limb
                k = (n + 2) // 3; Bk = 1 << (64 * k)
                a0 = a % Bk; a2 = a >> (128 * k); a1 = (a0 + a2 + rng.choice([-1, 0, 1])) % Bk
                a = a0 + (a1 << (64 * k)) + (a2 << (128 * k))
            out.append(('mpn_toom3_points %x %s %s' % (n, hx(a), hx(b)), 'toom3-points'))
    # mpn_toom4_mul_n called directly: the operands of its seven recursive products and the product against the Toom-4 model
    for n in ([148, 149, 150, 151, 173, 200] if quick else list(range(148, 380, 6))):
        for shape in (['uniform', 'ones', 'runs'] if quick else ['uniform', 'ones', 'runs', 'top1', 'lowzero', 'sparse']):
            a = limbs_value(rng, n, shape); b = limbs_value(rng, n, rng.choice([shape, 'uniform']))
            out.append(('mpn_toom4_points %x %s %s' % (n, hx(a), hx(b)), 'toom4-points'))
    # sliced schoolbook path of mpn_mul: un above MUL_BASECASE_MAX_UN = 500, vn below the Karatsuba threshold
    for un in ([501, 503] if quick else [501, 502, 750, 1000, 1001, 1003]):      # the value-level model divides 30 000-bit numbers: slow
        for vn in ((1, max(1, T.get('MUL_KARATSUBA_THRESHOLD', 17) - 1)) if quick else (1, 2, 3, max(1, T.get('MUL_KARATSUBA_THRESHOLD', 17) - 1))):
            u = limbs_value(rng, un, rng.choice(['ones', 'uniform', 'runs'])); v = limbs_value(rng, vn, rng.choice(['ones', 'uniform']))
            if rng.random() < 0.5:      # low limb of every piece B-2: the add-back of the saved triangle carries every time
                for j in range(0, un, 500): u &= ~(1 << (64 * j))
            out.append(('mpn_mul_sliced %x %s %x %s' % (un, hx(u), vn, hx(v)), 'mul-sliced'))
    # single-bit / sparse operands at FFT sizes: pointwise products hit the residue 2^(nw) = -1
    for _ in range(24 if quick else 300):
        a = rng.randrange(F, F + 600); b = rng.choice([a, a, rng.randrange(min(a, max(F // 3 + 1, 2 * F - a + 1)), a + 1)])
        sh = rng.choice(['onebit', 'onebit', 'sparse'])
        if a == b and rng.getrandbits(1):
            mulcase('mpn_sqr', max(a, SF + 1), max(a, SF + 1), 1, sh, 'fft-sparse-sqr')
        else:
            mulcase('mpn_mul', a, b, 0, sh, 'fft-sparse')
    for n in (F, F + 1):
        mulcase('mpn_mul_n', n, n, 0, 'ones', 'fft-via-mul_n')
        mulcase('mpn_mul', n + 500, n - 400, 0, 'ones', 'fft-unbal')
    mulcase('mpn_sqr', SF + 1, SF + 1, 1, 'ones', 'fft-sqr')
    for _ in range(6 if quick else 60):
        a = rng.randrange(F // 2, 2 * F if quick else 6 * F); b = rng.randrange(max(200, a // 6), a + 1)
        mulcase('mpn_mul_fft_main', a, b, 0, rng.choice(['ones', None]), 'fft-main-rand')
    # 6. mpz level: signs, zero, aliasing, the wsize <= KARATSUBA shortcut
    K = T.get('MUL_KARATSUBA_THRESHOLD', 17)
    for i in range(500 if quick else 4000):
        if i % 5 == 0:
            an = rng.choice([K // 2, K - 1 - K // 2, K // 2 + 1, K, K + 1]); bn = max(1, K - an + rng.choice([-1, 0, 1]))
            a = nonzero_top(rng, max(1, an)) * rng.choice([1, -1]); b = nonzero_top(rng, bn) * rng.choice([1, -1])
        else:
            a = signed_value(rng, 12); b = signed_value(rng, 12)
        al = rng.choice([0, 1, 2, 3, 4])
        out.append(('mpz_mul %s %s %d' % (hx(a), hx(b), al), 'mpz_mul'))
        v = limb(rng)
        out.append(('mpz_mul_ui %s %x %d' % (hx(a), v, rng.getrandbits(1)), 'mpz_mul_ui'))
        sv = rng.choice([0, 1, -1, (1 << 63) - 1, -(1 << 63), rng.randrange(-(1 << 63), 1 << 63)])
        out.append(('mpz_mul_si %s %s %d' % (hx(a), hx(sv), rng.getrandbits(1)), 'mpz_mul_si'))
        w = signed_value(rng, 14)
        if rng.random() < 0.3:
            w = -a * b + rng.choice([0, 1, -1, 1 << 64]) if rng.random() < 0.5 else a * b
        out.append(('mpz_addmul %s %s %s %d' % (hx(w), hx(a), hx(b), rng.choice([0, 0, 1, 2, 3, 4])), 'mpz_addmul'))
        out.append(('mpz_submul %s %s %s %d' % (hx(w), hx(a), hx(b), rng.choice([0, 0, 1, 2, 3, 4])), 'mpz_submul'))
        w2 = signed_value(rng, 8)
        if rng.random() < 0.4:
            w2 = rng.choice([a * v, -a * v, a * v + 1, -a * v - 1, a * v - (1 << 64)])
        out.append(('mpz_addmul_ui %s %s %x %d' % (hx(w2), hx(a), v, rng.choice([0, 0, 1])), 'mpz_addmul_ui'))
        out.append(('mpz_submul_ui %s %s %x %d' % (hx(w2), hx(a), v, rng.choice([0, 0, 1])), 'mpz_submul_ui'))
    for n in ([200, 1000] if quick else [200, 1000, 3600, 8000]):
        a = nonzero_top(rng, n) * rng.choice([1, -1]); b = nonzero_top(rng, n - rng.randrange(0, n // 2)) * rng.choice([1, -1])
        for al in (0, 1, 2, 4):
            out.append(('mpz_mul_big %s %s %d' % (hx(a), hx(b), al), 'mpz_mul_big'))
    return out
