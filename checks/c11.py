"""C11 — comparisons and conversions: correspondence cases around every C type boundary and
every class of double."""
import struct
from gen import *

PID = 'C11'
RULE = ('cases = comparison/conversion function x integers at and +-1 around 0, 2^15, 2^16, 2^31, 2^32, 2^53, 2^63, 2^64, 2^k+-1 for k <= 1100, multi-limb values, '
        'values with more than 53 significant bits whose truncation differs from rounding x doubles of every class (zero, subnormal, normal, 2^53 neighbourhood, huge exponents, '
        'infinities, NaN) given as bit patterns; rationals near type boundaries; non-trivial = distinct case line')
EXPLANATION = 'implementation vs extracted Coq models (ConvDefs.v): exact dyadic semantics of doubles, truncating conversions, fits predicates, limb-level mpz_cmp; theorems in Properties_C11.v'
ASSUMPTIONS = ['NaN/Inf traps (__gmp_invalid_operation) observed as SIGFPE and mapped to the Invalid tag', 'mpf comparisons are covered under C13']

def canon_impl(out):
    return 'x:' if out and 'CRASH-SIGNAL 8' in out else out

def nontrivial(line, tag):
    return True

def dbits(x):
    return struct.unpack('<Q', struct.pack('<d', x))[0]

def doubles(rng):
    L = [0, 1 << 63, 1, (1 << 63) | 1, (1 << 52) - 1, 1 << 52, 0x7FEFFFFFFFFFFFFF, 0xFFEFFFFFFFFFFFFF, 0x7FF0000000000000, 0xFFF0000000000000]
    for v in (0.5, 1.0, -1.0, 1.5, 2.0 ** 53, 2.0 ** 53 + 2, 2.0 ** 53 - 1, 2.0 ** 63, -(2.0 ** 63), 2.0 ** 64, 2.0 ** 64 - 2048, 2.0 ** 31, 2.0 ** 32, 0.999999999, 1e300, -1e300, 1e-300, 3.75, -0.25, 65535.0, 65536.5):
        L.append(dbits(v))
    for _ in range(300):
        e = rng.choice([0, 1, 2, 1022, 1023, 1024, 1023 + 52, 1023 + 53, 1023 + 63, 1023 + 64, 1023 + 65, 1023 + 127, 2046, rng.randrange(0, 2047)])
        m = rng.choice([0, 1, (1 << 52) - 1, 1 << 51, rng.getrandbits(52)])
        L.append((rng.getrandbits(1) << 63) | (e << 52) | m)
    return L

def ints(rng):
    L = [0]
    for k in [1, 7, 8, 15, 16, 31, 32, 52, 53, 54, 62, 63, 64, 65, 127, 128, 1023, 1024, 1025, 1100]:
        for d in (-1, 0, 1):
            L += [(1 << k) + d, -((1 << k) + d)]
    for _ in range(200):
        n = rng.randrange(1, 6)
        x = nonzero_top(rng, n)
        L += [x, -x]
        # > 53 significant bits, dropped bits just above / below one half
        k = rng.randrange(54, 200)
        top = (1 << 52) | rng.getrandbits(52)
        low = rng.choice([(1 << (k - 53 - 1)), (1 << (k - 53 - 1)) - 1, (1 << (k - 53 - 1)) + 1, (1 << (k - 53)) - 1, 0])
        L += [(top << (k - 53)) | low, -((top << (k - 53)) | low)]
    return L

def cases(ctx, tier):
    rng = ctx.rng('cases')
    out = []
    D = doubles(rng); I = ints(rng)
    if tier != 'quick':
        D += doubles(rng) + doubles(rng); I += ints(rng) + ints(rng)
    for b in D:
        out.append(('mpz_set_d %x' % b, 'set_d'))
        out.append(('mpq_set_d %x' % b, 'mpq_set_d'))
    for z in I:
        out.append(('mpz_get_d %s' % hx(z), 'get_d'))
        if z:
            # the internal routine with an exponent: results next to overflow (1024), the smallest normal (-1022), the denormals
            # (-1074) and complete underflow, for every position of the top bit inside its limb; LONG_MAX / LONG_MIN exponents
            bl = abs(z).bit_length()
            for tgt in (1025, 1024, 1023, 0, -1021, -1022, -1023, -1060, -1073, -1074, -1075, -1076, -2000):
                if rng.random() < 0.25:
                    out.append(('mpn_get_d %s %s %s' % (hx(abs(z)), hx(rng.choice([1, -1, 5, -7])), hx(tgt - bl + rng.choice([0, 0, 1, -1]))), 'mpn_get_d-exp'))
            if rng.random() < 0.05:
                out.append(('mpn_get_d %s 1 %s' % (hx(abs(z)), hx(rng.choice([(1 << 63) - 1, -(1 << 63), (1 << 63) - 64 * ((bl + 63) // 64), (1 << 63) - 64 * ((bl + 63) // 64) + 1]))), 'mpn_get_d-longmax'))
        out.append(('mpz_get_d_2exp %s' % hx(z), 'get_d_2exp'))
        out.append(('mpz_get %s' % hx(z), 'get'))
        out.append(('mpz_fits %s' % hx(z), 'fits'))
        for _ in range(2):
            b = rng.choice(D)
            out.append(('mpz_cmp_d %s %x' % (hx(z), b), 'cmp_d'))
            out.append(('mpz_cmpabs_d %s %x' % (hx(z), b), 'cmpabs_d'))
        # a double equal to / adjacent to z
        if z != 0 and abs(z).bit_length() <= 1023:
            try:
                f = float(z)
                fb = dbits(f)
                for nb in (fb, fb + 1, fb - 1):
                    out.append(('mpz_cmp_d %s %x' % (hx(z), nb), 'cmp_d-near'))
            except OverflowError:
                pass
        w = rng.choice(I)
        out.append(('mpz_cmp %s %s' % (hx(z), hx(w)), 'cmp'))
        out.append(('mpz_cmp %s %s' % (hx(z), hx(z + rng.choice([0, 1, -1, 1 << 64]))), 'cmp-near'))
        v = rng.choice([0, 1, (1 << 64) - 1, 1 << 63, abs(z) % (1 << 64), (abs(z) + 1) % (1 << 64), rng.getrandbits(64)])
        out.append(('mpz_cmp_ui %s %x' % (hx(z), v), 'cmp_ui'))
        s = rng.choice([0, 1, -1, (1 << 63) - 1, -(1 << 63), max(-(1 << 63), min((1 << 63) - 1, z)), rng.randrange(-(1 << 63), 1 << 63)])
        out.append(('mpz_cmp_si %s %s' % (hx(z), hx(s)), 'cmp_si'))
        out.append(('mpz_set_ui %x' % v, 'set_ui'))
        out.append(('mpz_set_si %s' % hx(s), 'set_si'))
    # rationals
    import math
    for _ in range(800 if tier == 'quick' else 6000):
        n = rng.choice(I); d = abs(rng.choice(I)) or 1
        g = math.gcd(n, d); n //= g; d //= g
        out.append(('mpq_get_d %s %s' % (hx(n), hx(d)), 'mpq_get_d'))
        n2 = rng.choice(I); d2 = abs(rng.choice(I)) or 1
        g = math.gcd(n2, d2); n2 //= g; d2 //= g
        if rng.random() < 0.3:
            n2, d2 = n + rng.choice([0, 1, -1]), d
            g = math.gcd(n2, d2); n2 //= g; d2 //= g
        out.append(('mpq_cmp %s %s %s %s %d' % (hx(n), hx(d), hx(n2), hx(d2), 1 if rng.random() < 0.05 else 0), 'mpq_cmp'))
        # same numerator, denominators that agree in their low limbs but differ in length
        dd = d + (rng.getrandbits(64) | 1) * (1 << (64 * ((d.bit_length() + 63) // 64)))
        if math.gcd(n, dd) == 1 and math.gcd(n, d) == 1:
            out.append(('mpq_cmp %s %s %s %s 0' % (hx(n), hx(d), hx(n), hx(dd)), 'mpq_cmp-lowlimbs'))
            out.append(('mpq_cmp %s %s %s %s 0' % (hx(n), hx(dd), hx(n), hx(d)), 'mpq_cmp-lowlimbs'))
        un = rng.choice([0, 1, (1 << 64) - 1, rng.getrandbits(64)]); ud = rng.choice([1, 2, (1 << 64) - 1, rng.getrandbits(64) | 1])
        out.append(('mpq_cmp_ui %s %s %x %x' % (hx(n), hx(d), un, ud), 'mpq_cmp_ui'))
        sn = rng.choice([0, 1, -1, (1 << 63) - 1, -(1 << 63), rng.randrange(-(1 << 63), 1 << 63)])
        out.append(('mpq_cmp_si %s %s %s %x' % (hx(n), hx(d), hx(sn), ud), 'mpq_cmp_si'))
        out.append(('mpq_cmp_z %s %s %s' % (hx(n), hx(d), hx(rng.choice([n // d, n // d + 1, rng.choice(I)]))), 'mpq_cmp_z'))
    return out
