"""C03 — add, subtract, negate, shift, copy, compare: correspondence cases."""
from gen import *

PID = 'C03'
RULE = ('cases = mpn/mpz operation x length (every n in 1..40 quick, 1..130 thorough) x operand shape '
        '(uniform, 0/1 runs, all-ones, single bit, 2^k+-1, low zero limbs, extreme top limbs) x every permitted overlap/alias pattern '
        'x shift count 1..63; non-trivial = distinct case line whose operands are not both zero')
EXPLANATION = 'implementation (libmpir.a built from /repo) vs the extracted Coq models add_n, sub_n, add_1, sub_1, add, sub, neg_n, com_n, lshift, rshift, cmp, zero_p and the mpz_* models, which Properties_C03.v proves equal to exact integer arithmetic for every length and content'
ASSUMPTIONS = ['the C sources are tied to the Gallina models by execution on generated inputs, not by a C semantics',
               'assembly kernels add_err*/sub_err* are not covered here (see C14)']

def nontrivial(line, tag):
    toks = line.split()
    return any(len(t) > 1 for t in toks[1:])

def cases(ctx, tier):
    rng = ctx.rng('cases')
    out = []
    maxn = 40 if tier == 'quick' else 130
    reps = 2 if tier == 'quick' else 4
    def add(line, tag):
        out.append((line, tag))
    for n in range(1, maxn + 1):
        for _ in range(reps):
            u = limbs_value(rng, n); v = limbs_value(rng, n)
            for ovl in (0, 1, 2, 3):
                add('mpn_add_n %x %s %s %d' % (n, hx(u), hx(v), ovl), 'add_n')
                add('mpn_sub_n %x %s %s %d' % (n, hx(u), hx(v), ovl), 'sub_n')
        # full carry / borrow chains
        ones = (1 << (64 * n)) - 1
        add('mpn_add_n %x %x 1 0' % (n, ones), 'add_n-chain')
        add('mpn_add_n %x %x %x 1' % (n, ones, ones), 'add_n-chain')
        add('mpn_sub_n %x 0 1 0' % n, 'sub_n-chain')
        add('mpn_sub_n %x %x %x 2' % (n, 1 << (64 * (n - 1)), 1), 'sub_n-chain')
        add('mpn_add_1 %x %x 1 0' % (n, ones), 'add_1-chain')
        add('mpn_add_1 %x %x %x 1' % (n, ones - rng.getrandbits(60), B - 1), 'add_1-chain')
        add('mpn_sub_1 %x 0 1 1' % n, 'sub_1-chain')
        add('mpn_sub_1 %x %x %x 0' % (n, 1 << (64 * (n - 1)), B - 1), 'sub_1-chain')
        for _ in range(reps):
            u = limbs_value(rng, n)
            k = rng.randrange(0, n + 1)
            # carry that ripples exactly k limbs then stops
            if k < n:
                uu = (u >> (64 * k) << (64 * k)) | ((1 << (64 * k)) - 1)
                uu &= ~(1 << (64 * k)) if rng.getrandbits(1) else uu
            else:
                uu = ones
            add('mpn_add_1 %x %x %x %d' % (n, uu, limb(rng) | 1, rng.getrandbits(1)), 'add_1')
            add('mpn_sub_1 %x %x %x %d' % (n, (u >> (64 * k)) << (64 * k), limb(rng) | 1, rng.getrandbits(1)), 'sub_1')
            add('mpn_add_1 %x %x %x %d' % (n, u, limb(rng), rng.getrandbits(1)), 'add_1')
            add('mpn_sub_1 %x %x %x %d' % (n, u, limb(rng), rng.getrandbits(1)), 'sub_1')
            add('mpn_neg_n %x %x %d' % (n, limbs_value(rng, n), rng.getrandbits(1)), 'neg_n')
            add('mpn_com_n %x %x %d' % (n, limbs_value(rng, n), rng.getrandbits(1)), 'com_n')
            w = limbs_value(rng, n)
            add('mpn_cmp %x %x %x' % (n, u, w), 'cmp')
            add('mpn_cmp %x %x %x' % (n, u, u ^ (1 << rng.randrange(64 * n))), 'cmp-onebit')
            add('mpn_zero_p %x %x' % (n, limbs_value(rng, n, rng.choice(['zero', 'onebit', 'uniform']))), 'zero_p')
        add('mpn_neg_n %x 0 0' % n, 'neg_n-zero')
        add('mpn_cmp %x %x %x' % (n, ones, ones), 'cmp-equal')
        add('mpn_zero %x' % n, 'zero')
        # add / sub with shorter second operand
        for _ in range(reps):
            yn = rng.randrange(0, n + 1)
            x = limbs_value(rng, n); y = limbs_value(rng, yn) if yn else 0
            ovl = rng.choice([0, 1, 2])
            add('mpn_add %x %x %x %x %d' % (n, x, yn, y, ovl), 'add')
            add('mpn_sub %x %x %x %x %d' % (n, x, yn, y, ovl), 'sub')
            if yn:
                add('mpn_add %x %x %x %x %d' % (n, ones, yn, 1, ovl), 'add-chain')
                add('mpn_sub %x %x %x %x %d' % (n, 1 << (64 * (n - 1)), yn, 1, ovl), 'sub-chain')
        # shifts and copies at every permitted placement
        cnts = range(1, 64) if n <= 3 else [1, 63, rng.randrange(2, 63), rng.randrange(2, 63)]
        for cnt in cnts:
            u = limbs_value(rng, n)
            offs = [-1, 0] + ([rng.randrange(1, n + 1)] if n >= 1 else [])
            if n <= 4:
                offs = [-1] + list(range(0, n + 1))
            for off in offs:
                add('mpn_lshift %x %x %x %s' % (n, u, cnt, hx(off)), 'lshift')
                add('mpn_rshift %x %x %x %s' % (n, u, cnt, hx(off)), 'rshift')
        for off in ([-1] + list(range(0, n + 1)) if n <= 6 else [-1, 0, 1, n // 2, n]):
            u = limbs_value(rng, n)
            add('mpn_copyi %x %x %s' % (n, u, hx(off)), 'copyi')
            add('mpn_copyd %x %x %s' % (n, u, hx(off)), 'copyd')
    # mpz level
    nz = 600 if tier == 'quick' else 4000
    for i in range(nz):
        a = signed_value(rng, 8); b = signed_value(rng, 8)
        r = rng.random()
        if r < 0.15:
            b = -a                                     # equal-magnitude cancellation
        elif r < 0.3:
            b = -a + rng.choice([1, -1, 1 << 64, -(1 << 64)])  # near cancellation
        elif r < 0.4:
            b = (abs(a) ^ (1 << rng.randrange(max(1, abs(a).bit_length())))) * rng.choice([1, -1])
        elif r < 0.55:
            # lengths differ by one limb and the difference loses several limbs
            n = rng.randrange(2, 9); k = rng.randrange(1, n)
            a = (1 << (64 * k)) + rng.choice([0, 1, rng.getrandbits(20), rng.getrandbits(64 * rng.randrange(0, k) + 1)])
            b = -((1 << (64 * k)) - rng.choice([1, 1, rng.getrandbits(20) + 1, rng.getrandbits(64 * rng.randrange(0, k) + 1) + 1]))
            if rng.getrandbits(1): a, b = -a, -b
            if rng.getrandbits(1): a, b = b, a
        al = rng.choice([0, 1, 2, 3, 4])
        add('mpz_add %s %s %d' % (hx(a), hx(b), al), 'mpz_add')
        add('mpz_sub %s %s %d' % (hx(a), hx(b), al), 'mpz_sub')
        add('mpz_sub %s %s %d' % (hx(a), hx(-b), al), 'mpz_sub')
        v = limb(rng)
        if rng.random() < 0.3 and a != 0:
            # |a| one limb and close to v, or carry into a new limb
            a = rng.choice([v, -v, v + 1, -(v + 1), v - 1, -(v - 1), B - 1, -(B - 1), (1 << 128) - 1, -((1 << 128) - 1), 1 << 64, -(1 << 64)])
        al1 = rng.getrandbits(1)
        add('mpz_add_ui %s %x %d' % (hx(a), v, al1), 'mpz_add_ui')
        add('mpz_sub_ui %s %x %d' % (hx(a), v, al1), 'mpz_sub_ui')
        add('mpz_ui_sub %s %x %d' % (hx(a), v, al1), 'mpz_ui_sub')
        add('mpz_mul_2exp %s %x %d' % (hx(a), rng.choice([0, 1, 63, 64, 65, 127, 128, rng.randrange(0, 400)]), al1), 'mpz_mul_2exp')
        add('mpz_neg %s %d' % (hx(a), al1), 'mpz_neg')
        add('mpz_abs %s %d' % (hx(a), al1), 'mpz_abs')
        add('mpz_set %s %d' % (hx(a), al1), 'mpz_set')
        add('mpz_swap %s %s' % (hx(a), hx(b)), 'mpz_swap')
    # shift counts that do not fit 32 bits (the result has half a gigabyte: observed through its bit length, lowest set bit, sign and
    # by shifting it back; two cases per run)
    for u, cnt in ((3, 1 << 32), (-5, (1 << 32) + 5)):
        out.append(('mpz_mul_2exp_big %s %x' % (hx(u), cnt), 'mpz_mul_2exp-count-above-32-bits'))
    return out
