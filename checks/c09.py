"""C09 — integer roots, remainders, perfect powers: correspondence cases."""
import math, os, sys, math
from gen import *

PID = 'C09'
RULE = ('cases = root function x u = k^n, k^n - 1, k^n + 1 for all small k and random large k, every root index n from 1 to beyond the bit length, roots made of long runs of '
        'one bits (all-ones roots at every limb count, B^m - c), even and odd limb counts, thin bands just below 2^(64 n), negatives with odd/even n, 0, 1; perfect-power candidates '
        'p^e for every prime p below 1100 and prime exponents, mixed a^(pq), negatives; non-trivial = distinct case line')
EXPLANATION = ('implementation vs extracted Coq models (RootDefs.v): Zimmermann divide-and-conquer square root at value level, normalising shift, n-th root by bisection, wrappers, '
               'perfect square / perfect power by definition; Properties_C09.v proves the recursion, the shift and the wrappers')
ASSUMPTIONS = ['the Newton iteration inside mpn_rootrem and sqrtrem1/sqrtrem2 are tied by execution only', 'SQRT_OF_NEGATIVE and DIVIDE_BY_ZERO are observed as SIGFPE']
TIMEOUT = 1500

def canon_impl(out):
    return 'x:' if out and 'CRASH-SIGNAL 8' in out else out

def nontrivial(line, tag):
    return True

def small_primes(n):
    s = [True] * (n + 1); s[0] = s[1] = False
    for i in range(2, int(n ** 0.5) + 1):
        if s[i]:
            for j in range(i * i, n + 1, i): s[j] = False
    return [i for i in range(n + 1) if s[i]]

def cases(ctx, tier):
    rng = ctx.rng('cases')
    quick = tier == 'quick'
    out = []
    CAP = 2200 if quick else 9000
    def sq(u, tag):
        out.append(('mpz_sqrtrem %s %d' % (hx(u), rng.choice([0, 0, 1, 2])), tag))
        out.append(('mpz_sqrt %s %d' % (hx(u), rng.getrandbits(1)), tag))
        out.append(('mpz_perfect_square_p %s' % hx(u), tag + '-psq'))
        if u > 0:
            nn = (u.bit_length() + 63) // 64
            out.append(('mpn_sqrtrem %x %s %d' % (nn, hx(u), rng.getrandbits(1)), tag + '-mpn'))
            # the as-coded model (slow above a dozen limbs): all one- and two-limb operands, a sample of the longer ones
            if nn <= 2 or (nn <= 12 and rng.random() < 0.15):
                out.append(('mpn_sqrtrem_c %x %s %d' % (nn, hx(u), rng.getrandbits(1)), 'mpn_sqrtrem-as-coded'))
    for u in list(range(0, 70)):
        sq(u, 'sqrt-small')
    for n in range(1, 24 if quick else 60):
        Bn = 1 << (64 * n)
        ks = [Bn - 1, Bn - 2, Bn >> 1, (Bn >> 1) + 1, (1 << (64 * n - 32)) - 1, nonzero_top(rng, n), nonzero_top(rng, n, 'runs'), nonzero_top(rng, n, 'ones') - rng.getrandbits(5)]
        for k in ks:
            for d in (0, -1, 1, 2 * k, 2 * k - 1):
                sq(k * k + d, 'sqrt-k2')
        for _ in range(4):
            sq(nonzero_top(rng, 2 * n - rng.getrandbits(1)), 'sqrt-rand')
            sq(nonzero_top(rng, 2 * n, 'top1') >> rng.randrange(0, 64), 'sqrt-rand')
    # every value of the leading 9 bits of a normalised limb (the seed table of the one-limb square root is indexed by them), with the
    # bits below all ones, all zeros, alternating, random; as a one-limb operand, as the top limb of two- and three-limb operands,
    # and one bit position lower (odd bit count: the operand is shifted before the table is consulted); squares next to them
    for t in range(0x100, 0x200):
        for low in ((1 << 55) - 1, 0, 0x2AAAAAAAAAAAAA, rng.getrandbits(55), rng.getrandbits(55)):
            x = (t << 55) | low
            sq(x, 'sqrt-top9')
            r = math.isqrt(x)
            sq(r * r, 'sqrt-top9'); sq((r + 1) * (r + 1) - 1, 'sqrt-top9')
        x = (t << 55) | rng.getrandbits(55)
        sq(x >> 1, 'sqrt-top9-odd')
        sq((x << 64) | rng.getrandbits(64), 'sqrt-top9-2limbs'); sq((x << 128) | rng.getrandbits(128), 'sqrt-top9-3limbs')
        sq(((x << 64) | ((1 << 64) - 1)) >> 1, 'sqrt-top9-2limbs')
    # n-th roots
    for n in list(range(1, 12)) + [13, 16, 17, 31, 32, 33, 63, 64, 65, 100, 1000]:
        for k in list(range(0, 12)) + [(1 << 64) - 1, 1 << 64, (1 << 32) - 1, (1 << 128) - 1, nonzero_top(rng, 2), (1 << rng.randrange(1, 100)) - 1]:
            if k.bit_length() * n > CAP: continue
            for d in (0, -1, 1):
                u = k ** n + d
                for s in (1, -1):
                    if s < 0 and n % 2 == 0: continue
                    out.append(('mpz_root %s %x %d' % (hx(s * u), n, rng.getrandbits(1)), 'root'))
                    out.append(('mpz_rootrem %s %x %d' % (hx(s * u), n, rng.choice([0, 1, 2])), 'rootrem'))
                    out.append(('mpz_nthroot %s %x %d' % (hx(s * u), n, 0), 'nthroot'))
        # thin band just below 2^(64 m): roots of all ones
        for m in (1, 2, 3, 4):
            if 64 * m * n > CAP: continue
            top = 1 << (64 * m * n)
            for c in (1, 2, n << 64 if m > 1 else n, (n * (1 << (64 * (m * n - m)))) - 1 if m * n > m else 3):
                u = top - c
                if u > 0:
                    out.append(('mpz_root %s %x 0' % (hx(u), n), 'root-band'))
                    out.append(('mpz_rootrem %s %x 0' % (hx(u), n), 'rootrem-band'))
                    if n % 2: out.append(('mpz_root %s %x 0' % (hx(-u), n), 'root-band'))
        u = nonzero_top(rng, rng.randrange(1, 8))
        out.append(('mpz_root %s %x 0' % (hx(u), n + u.bit_length()), 'root-index-beyond-bits'))
    out.append(('mpz_root 5 0 0', 'root-zero-index'))
    out.append(('mpz_root -10 2 0', 'root-neg-even'))
    out.append(('mpz_sqrt -1 0', 'sqrt-neg'))
    out.append(('mpz_sqrtrem -4 0', 'sqrt-neg'))
    out.append(('mpz_rootrem -10 4 0', 'root-neg-even'))
    # perfect powers
    P = small_primes(1100)
    for p in (P if not quick else P[:30] + rng.sample(P[30:], 60) + [97, 1009, 1013]):
        for e in (2, 3, 5, 7, 13):
            if p.bit_length() * e > 700: continue
            out.append(('mpz_perfect_power_p %s' % hx(p ** e), 'perfpow-prime'))
            if e % 2: out.append(('mpz_perfect_power_p %s' % hx(-(p ** e)), 'perfpow-prime-neg'))
            out.append(('mpz_perfect_power_p %s' % hx(p ** e * rng.choice([2, 3, 4, 8, 9, 1009])), 'perfpow-mixed'))
            q = rng.choice(P[:10])
            out.append(('mpz_perfect_power_p %s' % hx((q ** (2 * e)) * p ** e), 'perfpow-mixed'))
    for u in range(-70, 300):
        out.append(('mpz_perfect_power_p %s' % hx(u), 'perfpow-small'))
    for _ in range(200 if quick else 2000):
        a = rng.choice([2, 3, 6, 10, 97, 1009, 1013, rng.getrandbits(40) | 1, rng.getrandbits(70)]) or 3
        e = rng.choice([2, 3, 4, 5, 6, 9, 15])
        out.append(('mpz_perfect_power_p %s' % hx(rng.choice([1, -1]) * a ** e + rng.choice([0, 0, 1, -1])), 'perfpow-rand'))
    return out


def search(ctx, failed):
    """Directed search when an obligation of Properties_C09.v no longer checks.  The seed table of the one-limb square root: for
    every entry that is not floor(sqrt(256 i)) operands whose leading byte (after the even normalisation shift) is i are sampled
    densely - one limb, one bit lower, and as the top limb of two limbs - and the library's root and remainder are compared with
    the definition."""
    import vlib, random
    names = [o['name'] for o in failed]
    if not any('sqrt_seed' in n for n in names):
        return None
    sys.path.insert(0, os.path.join(os.path.dirname(os.path.dirname(os.path.abspath(__file__))), 'translator'))
    import gen_consts
    tab = gen_consts.parse_sqrt_tab()
    badidx = [i for i in range(64, 256) if i - 64 >= len(tab) or tab[i - 64] != math.isqrt(256 * i)]
    rng = random.Random('%s/C09/search' % ctx.seed)
    for i in badidx[:4]:
        xs = []
        for _ in range(30000):
            x = (i << 56) | rng.getrandbits(56)
            k = rng.random()
            if k < 0.15:
                r = math.isqrt(x); x = r * r + rng.choice([0, -1, 1])
            xs.append(x)
            if k > 0.9: xs.append((x << 64) | rng.getrandbits(64))
        lines = ['mpn_sqrtrem %x %s 0' % ((x.bit_length() + 63) // 64, hx(x)) for x in xs]
        outs = vlib.run_robust(vlib.impl_cmd(ctx.impl), lines, timeout=600, died='CRASH')
        for x, ln, o in zip(xs, lines, outs):
            r = math.isqrt(x)
            t = o.split()
            ok = len(t) >= 3 and all(all(ch in '0123456789abcdef' for ch in v) for v in t[:3]) and int(t[1], 16) == r and int(t[2], 16) == x - r * r
            if not ok:
                return {'cases': [ln], 'implementation_output': o[:300], 'expected': '<limbs of the remainder> %x %x' % (r, x - r * r),
                        'note': 'approx_tab[%d - 64] is %s, floor(sqrt(256 * %d)) is %d; operand with that leading byte' % (i, tab[i - 64] if i - 64 < len(tab) else None, i, math.isqrt(256 * i))}
    return None
