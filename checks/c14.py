"""C14 — every assembly kernel, tuning table and build option gives the same results: correspondence cases."""
import os, sys, json, shutil, glob, re
from gen import *
import vlib
sys.path.insert(0, os.path.join(os.path.dirname(os.path.dirname(os.path.abspath(__file__))), 'translator'))

PID = 'C14'
RULE = ('cases = EVERY assembly file under mpn/x86_64/** that the host CPU can execute (and the portable C file of the same routine), each assembled on its own and called on: operand '
        'lengths 1..20, 31..34, 63..66 (basecase multipliers up to 24), values all-ones / single bit / runs / random / zero, every carry-chain length, shift counts 1, 31, 32, 63, '
        'aliasing where the routine allows it, guard limbs around every destination; library functions under every shipped gmp-mparam.h (threshold vectors) and under the configure '
        'options --enable-alloca=alloca/malloc-reentrant/debug, --enable-assert, --enable-fat on operand sizes around the crossovers of that table; non-trivial = distinct case line')
EXPLANATION = ('each kernel vs the extracted Coq specification of its routine (KernDefs.v: the value-level function; the limb-level models of the same routines are proved equal to these '
               'functions in Properties_C01/C03/C10) and vs the portable C routine; library variants vs the extracted models of C01, C02, C07, C08, C09 which do not depend on thresholds; '
               'Properties_C14.v proves the specifications are the functions the portable models compute and that every shipped threshold table satisfies the validity conditions the '
               'algorithms need')
ASSUMPTIONS = ['an assembly kernel is tied to its specification by execution on this host only (no x86 semantics in Coq); kernels needing CPU features the host lacks are listed as skipped',
               'routines whose result is not modelled here (err1/err2 adders, Hensel and 2-limb divisions, middle product, nsumdiff) are compared with the portable C routine only',
               'library variants are compared through the same models on a few thousand calls each; the fat build dispatches by cpuid of this host only']
TIMEOUT = 3000

def nontrivial(line, tag):
    return True

def cases(ctx, tier):
    return []

B = 1 << 64
def val(rng, n, shape=None):
    if n <= 0: return 0
    return limbs_value(rng, n, shape or rng.choice(['uniform', 'ones', 'runs', 'top1', 'top63', 'zero', 'sparse', 'uniform', 'lowzero', 'pow2m1']))

SIZES_Q = [1, 2, 3, 4, 5, 6, 7, 8, 9, 10, 12, 15, 16, 17, 20, 31, 32, 33, 64, 65]
LOGIC = ['and_n', 'andn_n', 'ior_n', 'iorn_n', 'nand_n', 'nior_n', 'xor_n', 'xnor_n']

def kcases(rng, r, quick):
    """argument strings for routine r"""
    out = []
    sizes = SIZES_Q if quick else list(range(1, 40)) + [63, 64, 65, 66, 100, 127, 128, 129]
    reps = 2 if quick else 6
    def V(n, shape=None): return hx(val(rng, n, shape))
    for n in sizes:
        for _ in range(reps):
            if r in ('add_n', 'sub_n', 'addlsh1_n', 'sublsh1_n', 'rsh1add_n', 'rsh1sub_n') or r in LOGIC:
                u = val(rng, n); v = val(rng, n)
                if rng.random() < 0.3: v = (1 << (64 * n)) - 1 - u + rng.choice([0, 1, 0])      # long carry chains
                if rng.random() < 0.15: v = u
                out.append('%x %s %s %d' % (n, hx(u), hx(v % (1 << (64 * n))), rng.choice([0, 0, 1, 2])))
            elif r in ('addadd_n', 'addsub_n', 'subadd_n'):
                out.append('%x %s %s %s' % (n, V(n), V(n), V(n)))
            elif r in ('sumdiff_n', 'nsumdiff_n'):
                out.append('%x %s %s' % (n, V(n), V(n)))
            elif r in ('mul_1', 'addmul_1', 'submul_1'):
                out.append('%x %s %x %s' % (n, V(n), rng.choice([0, 1, B - 1, 1 << 63, rng.getrandbits(64)]), V(n)))
            elif r in ('lshift', 'rshift', 'lshiftc'):
                out.append('%x %s %x %d' % (n, V(n), rng.choice([1, 2, 31, 32, 33, 62, 63, rng.randrange(1, 64)]), rng.choice([0, 0, 1])))
            elif r in ('addlsh_n', 'sublsh_n'):
                out.append('%x %s %s %x' % (n, V(n), V(n), rng.choice([1, 2, 31, 32, 63, rng.randrange(1, 64)])))
            elif r in ('lshift1', 'lshift2', 'lshift3', 'lshift4', 'lshift5', 'lshift6', 'rshift1', 'rshift2', 'com_n', 'copyi', 'copyd', 'double', 'half', 'not', 'popcount'):
                out.append('%x %s' % (n, V(n)))
            elif r == 'store':
                out.append('%x %x' % (n, rng.choice([0, B - 1, rng.getrandbits(64)])))
            elif r == 'hamdist':
                out.append('%x %s %s' % (n, V(n), V(n)))
            elif r in ('mul_basecase', 'mulmid_basecase'):
                if n > 24: continue
                vn = rng.randrange(1, n + 1)
                out.append('%x %s %x %s' % (n, V(n), vn, V(vn)))
            elif r == 'sqr_basecase':
                if n > 24: continue
                out.append('%x %s' % (n, V(n)))
            elif r == 'mullow_n_basecase':
                if n > 24: continue
                out.append('%x %s %s' % (n, V(n), V(n)))
            elif r in ('mul_2', 'addmul_2'):
                if n < 2: continue
                out.append('%x %s %s %s' % (n, V(n), V(2), V(n + 1)))
            elif r == 'redc_1':
                if n > 33: continue
                m = val(rng, n, rng.choice(['uniform', 'ones', 'top1'])) | 1 | (1 << (64 * n - 1 - rng.randrange(0, 64) if rng.random() < 0.5 else 0))
                t = rng.randrange(m << (64 * n)) if rng.random() < 0.7 else (m << (64 * n)) - 1 - rng.getrandbits(20)
                out.append('%x %s %s' % (n, hx(t), hx(m)))
            elif r in ('karaadd', 'karasub'):
                if n < 8 or n > 40: continue
                n2 = n // 2; n3 = n - n2
                xl = val(rng, n2); xh = val(rng, n3); yl = val(rng, n2); yh = val(rng, n3)
                dx = xh - xl; dy = yh - yl
                if r == 'karasub' and dx * dy < 0:
                    if n2 != n3: continue
                    yl, yh = yh, yl; dy = -dy
                if r == 'karaadd' and dx * dy > 0:
                    if n2 != n3: continue
                    yl, yh = yh, yl; dy = -dy
                L = xl * yl; H = xh * yh; T = abs(dx) * abs(dy)
                out.append('%x %s %s' % (n, hx(L + (H << (128 * n2))), hx(T)))
                # carries that ripple over several limbs of the high product: L with all-ones upper half, H with all-ones low limbs,
                # middle term chosen so that (L + H -+ T) * B^n2 overflows into them
                Bn2 = 1 << (64 * n2)
                for _k in range(3):
                    L2 = rng.getrandbits(64 * n2) | ((Bn2 - 1) << (64 * n2)) if rng.random() < 0.7 else (1 << (128 * n2)) - 1
                    ones = rng.randrange(1, 5)
                    H2 = ((1 << (64 * ones)) - 1) | (rng.getrandbits(64 * (2 * n3 - ones) - 2) << (64 * ones)) if 2 * n3 > ones else (1 << (64 * ones)) - 1
                    if r == 'karasub':
                        M = rng.choice([Bn2 - 1, Bn2 - rng.getrandbits(10) - 1, rng.getrandbits(64 * n2) | (1 << (64 * n2 - 1))])
                        T2 = L2 + H2 - M
                    else:
                        T2 = rng.choice([0, 1, Bn2 - 1, rng.getrandbits(64 * n2), rng.getrandbits(60)])
                        M = L2 + H2 + T2
                    res = L2 + (H2 << (128 * n2)) + M * Bn2
                    if T2 < 0 or T2 >= (1 << (128 * n3)) or H2 >= (1 << (128 * n3)) or res >= (1 << (128 * n)): continue
                    out.append('%x %s %s' % (n, hx(L2 + (H2 << (128 * n2))), hx(T2)))
            elif r == 'divexact_byff':
                q = val(rng, n - 1) if n > 1 else 0
                out.append('%x %s' % (n, hx(q * (B - 1))))
            elif r == 'divexact_by3c':
                q = val(rng, n) // 3
                out.append('%x %s 0 0' % (n, hx(q * 3)))
            elif r == 'divexact_byfobm1':
                f = rng.choice([3, 5, 15, 17, 51, 85, 255, 257, 65535, 65537, 4294967295])
                q = val(rng, n) // f
                out.append('%x %s %x' % (n, hx(q * f), f))
            elif r == 'modexact_1c_odd':
                out.append('%x %s %x %x' % (n, V(n), rng.getrandbits(64) | 1, rng.choice([0, 0, 1])))
            elif r == 'divrem_hensel_r_1':
                out.append('%x %s %x' % (n, V(n), rng.getrandbits(64) | 1))
            elif r in ('divrem_hensel_qr_1_1', 'divrem_hensel_qr_1_2'):
                if r.endswith('_2') and n < 2: continue
                out.append('%x %s %x' % (n, V(n), rng.choice([3, B - 1, rng.getrandbits(64) | 1])))
            elif r in ('rsh_divrem_hensel_qr_1_1', 'rsh_divrem_hensel_qr_1_2'):
                if r.endswith('_2') and n < 3: continue        # entered only at or above RSH_DIVREM_HENSEL_QR_1_THRESHOLD >= 3 (thr_valid)
                out.append('%x %s %x %x 0' % (n, V(n), rng.getrandbits(64) | 1, rng.choice([0, 1, 5, 63])))
            elif r == 'divrem_euclidean_qr_1':
                out.append('%x %s %x' % (n, V(n), rng.choice([1, 3, B - 1, 1 << 63, (1 << 63) + 1, rng.getrandbits(64) | 1, rng.getrandbits(40) | 1])))
            elif r in ('divrem_euclidean_qr_2', 'divrem_2'):
                if n < 2: continue
                d = val(rng, 2, rng.choice(['uniform', 'ones'])) | (1 << 127)
                x = val(rng, n)
                if x >> (64 * (n - 2)) >= d and r == 'divrem_euclidean_qr_2': x &= (1 << (64 * n - 1)) - 1
                out.append('%x %s %s' % (n, hx(x), hx(d)))
            elif r in ('mod_1_1', 'mod_1_2', 'mod_1_3'):
                if n < 6: continue
                out.append('%x %s %x' % (n, V(n), rng.choice([1, 2, 3, (1 << 61), (1 << 61) - 1, rng.getrandbits(61) | 1, rng.getrandbits(30) | 1])))
            elif r in ('add_err1_n', 'sub_err1_n'):
                out.append('%x %s %s %s %d' % (n, V(n), V(n), V(n), rng.getrandbits(1)))
            elif r in ('add_err2_n', 'sub_err2_n'):
                out.append('%x %s %s %s %s %d' % (n, V(n), V(n), V(n), V(n), rng.getrandbits(1)))
    return out

def run_kernels(ctx, ev):
    import kernels
    kd = kernels.build_kernels(ctx.impl)
    meta = json.load(open(os.path.join(kd, 'kernels.json')))
    rng = ctx.rng('kernels')
    quick = ctx.tier == 'quick'
    per_routine = {}
    for k in meta['kernels']:
        per_routine.setdefault(k['routine'], []).append(k)
    lines = []; owner = []
    for r, ks in sorted(per_routine.items()):
        args = kcases(rng, r, quick)
        for k in ks:
            for a in args:
                lines.append('kern %s %x %s' % (r, k['idx'], a)); owner.append((k, a))
    kcmd = [os.path.join(kd, 'kdrv')]
    io = vlib.run_robust(kcmd, lines, timeout=3000, died='CRASH')
    # model: one evaluation per (routine, args)
    uniq = {}
    for (k, a) in owner:
        uniq.setdefault((k['routine'], a), None)
    mkeys = sorted(uniq)
    mo = vlib.run_robust(vlib.model_cmd(), ['kern %s 0 %s' % (r, a) for r, a in mkeys], timeout=3000, died='MODEL-DIED')
    for key, o in zip(mkeys, mo): uniq[key] = '' if vlib.timed_out(ctx, o) else o.strip()
    gen_out = {}
    for (k, a), o in zip(owner, io):
        if k['dir'] == 'generic-C': gen_out[(k['routine'], a)] = o.strip()
    # mpn_modexact_1c_odd has no unique result: its contract is evaluated by the model on every kernel's answer
    cert = []; cert_owner = []
    for (k, a), ln, o in zip(owner, lines, io):
        if k['routine'] == 'modexact_1c_odd' and len(o.split()) == 1:
            cert.append('kern_modexact_ok %s %s' % (a, o.strip())); cert_owner.append((k, a, ln, o))
    co = vlib.run_robust(vlib.model_cmd(), cert, timeout=900, died='MODEL-DIED') if cert else []
    modexact_ok = {}
    for (k, a, ln, o), m in zip(cert_owner, co):
        if not vlib.timed_out(ctx, m): modexact_ok[(k['idx'], a)] = m.strip() == '1'
    n_model = n_gen = n_bad = 0; seen_bad = {}; untested = set(); sigill = set()
    per_kernel_cases = {}
    for (k, a), ln, o in zip(owner, lines, io):
        o = o.strip(); r = k['routine']
        per_kernel_cases[k['file']] = per_kernel_cases.get(k['file'], 0) + 1
        if 'CRASH-SIGNAL 4' in o:
            sigill.add(k['file']); continue
        m = uniq[(r, a)]
        if 'NO-HARNESS' in o:
            untested.add(r); continue
        ref = None; how = None
        if r == 'modexact_1c_odd' and (k['idx'], a) in modexact_ok:
            n_model += 1
            if modexact_ok[(k['idx'], a)]: continue
            ref = '(any r in [0,d] with r*B^k + a - c = 0 mod d, k = n or n-1)'; how = 'the contract evaluated by the Coq specification'
            o = o + ' '      # force the mismatch branch below
        elif m and not m.startswith('x:3f'):
            ref = m; how = 'the Coq specification'; n_model += 1
        elif (r, a) in gen_out and k['dir'] != 'generic-C':
            ref = gen_out[(r, a)]; how = 'the portable C routine'; n_gen += 1
        else:
            if k['dir'] == 'generic-C': continue
            untested.add(r); continue
        if o != ref:
            n_bad += 1
            kk = k['file']
            seen_bad[kk] = seen_bad.get(kk, 0) + 1
            if seen_bad[kk] <= 1 and len(ev) < 8:
                ev.append({'kind': 'kernel', 'cases': [ln], 'implementation_output': o[:1500], 'model_output': ref[:1500], 'note': '%s differs from %s' % (k['file'], how), 'key': k['file'],
                           'kernel_file': k['file'], 'how_to_replay': 'python3 lib/kernels.py; echo "<case>" | .cache/kern-*/kdrv',
                           'theorem': 'C14 (every kernel computes the function of the portable routine: KernDefs.v)'})
    ctx.extra_cov['extra_evaluations'] = ctx.extra_cov.get('extra_evaluations', 0) + len(lines); ctx.extra_cov['extra_distinct'] = ctx.extra_cov.get('extra_distinct', 0) + len(set(lines))
    ctx.extra_cov.update({'kernels_assembled': len([k for k in meta['kernels'] if k['dir'] != 'generic-C']), 'portable_C_routines': len([k for k in meta['kernels'] if k['dir'] == 'generic-C']),
                          'kernel_files_skipped': meta['skipped'], 'kernel_calls': len(lines), 'compared_with_coq_spec': n_model, 'compared_with_portable_C_only': n_gen,
                          'kernel_disagreements': n_bad, 'kernels_disagreeing': sorted(seen_bad), 'routines_without_harness_or_reference': sorted(untested), 'kernels_raising_SIGILL': sorted(sigill),
                          'host_flags': meta['host_flags'], 'kernel_dirs': sorted(set(k['dir'] for k in meta['kernels']))})

# ---- library variants: another tuning table, other configure options ----
OPTIONS = [('assert', '--enable-assert'), ('alloca-debug', '--enable-alloca=debug'), ('alloca-malloc-reentrant', '--enable-alloca=malloc-reentrant'),
           ('alloca-alloca', '--enable-alloca=alloca'), ('fat', '--enable-fat')]

def build_variant(name, mparam=None, conf=None):
    """libmpir.a and the driver built from /repo's tree with another gmp-mparam.h and/or configure options; cached."""
    import hashlib
    key = hashlib.sha256((vlib.tree_hash() + '|' + name + '|' + (open(mparam).read() if mparam else '') + '|' + (conf or '')).encode()).hexdigest()[:16]
    d = os.path.join(vlib.CACHE, 'var-%s-%s' % (re.sub(r'[^A-Za-z0-9]+', '_', name)[:40], key))
    if os.path.exists(os.path.join(d, 'ok')):
        return d
    with vlib.Lock('var-' + name[:30].replace('/', '_')):
        if os.path.exists(os.path.join(d, 'ok')):
            return d
        shutil.rmtree(d, ignore_errors=True)
        for old in glob.glob(os.path.join(vlib.CACHE, 'var-%s-*' % re.sub(r'[^A-Za-z0-9]+', '_', name)[:40])):
            shutil.rmtree(old, ignore_errors=True)        # an older build of the same variant
        os.makedirs(os.path.join(d, 'include'))
        scratch = vlib.scratch_dir('mpir-verif-var-')
        try:
            if conf:
                # configure wants every Makefile.in (tests, tune, doc too)
                vlib.sh(['rsync', '-a', '--exclude', '.git', '--exclude', '*.o', '--exclude', '*.lo', '--exclude', '*.la', '--exclude', '.libs', '--exclude', '.deps', vlib.REPO + '/', scratch + '/'])
            else:
                vlib.copy_repo(scratch, with_objects=False)
            if conf:
                for f in ('config.status', 'config.h', 'Makefile', 'libtool', 'mpir.h', 'config.m4'):
                    try: os.unlink(os.path.join(scratch, f))
                    except OSError: pass
                vlib.sh('./configure CFLAGS=-Wno-error %s' % conf, cwd=scratch, timeout=1200)
            if mparam:
                dst = os.path.join(scratch, 'gmp-mparam.h')
                try: os.unlink(dst)
                except OSError: pass
                shutil.copy(os.path.join(scratch, os.path.relpath(mparam, vlib.REPO)), dst)
            rc, out = vlib.sh('make -j%d SUBDIRS="%s"' % (vlib.NCPU, vlib.LIB_SUBDIRS), cwd=scratch, timeout=2400, check=False)
            if rc != 0:
                raise RuntimeError('BUILD-FAILED (variant %s):\n%s' % (name, out[-3000:]))
            vlib.finish_impl(d, scratch)
        finally:
            shutil.rmtree(scratch, ignore_errors=True)
        open(os.path.join(d, 'ok'), 'w').write('ok\n')
    return d

class VCtx:
    """the part of a check context the case generators of the other properties use"""
    def __init__(self, ctx, name, thr):
        self.seed = ctx.seed; self.tier = 'quick'; self.pid = 'C14/' + name; self.thr = thr; self.extra_cov = {}; self.extra_violations = []
        import random
        self._r = random
    def rng(self, stream):
        return self._r.Random('%s/%s/%s' % (self.seed, self.pid, stream))

def battery(ctx, name, impl, thr, per_module):
    """cases of C01, C02, C07, C08, C09 aimed at the crossovers of thr, run on the variant and compared with the models."""
    import importlib, checker
    bad_all = []; n = 0
    for modname in ('c01', 'c02', 'c07', 'c08', 'c09', 'c16'):
        mod = importlib.import_module(modname)
        v = VCtx(ctx, name, thr)
        cs = list(mod.cases(v, 'quick'))
        r = v.rng('sample')
        if modname == 'c16':
            # factorial family: every n around the factorial thresholds of this table, not a sample
            cs = [c for c in cs if c[0].split(' ', 1)[0] in ('mpz_fac_ui', 'mpz_2fac_ui', 'mpz_mfac_uiui', 'mpz_primorial_ui', 'mpz_bin_uiui', 'mpz_bin_ui')]
            small = [c for c in cs if len(c[0]) < 40]
            cs = small if len(small) <= 4 * per_module else r.sample(small, 4 * per_module)
        elif len(cs) > per_module:
            cs = r.sample(cs, per_module)
        c2 = checker.Ctx('C14', 'quick', ctx.seed)
        c2.impl = impl; c2.canon = getattr(mod, 'canon_impl', None); c2.matcher = getattr(mod, 'matcher', None)
        bad, io, mo = checker.diff_cases(c2, cs, timeout=1500)
        # mpn_mul_fft_main also prints the (depth, w) it chose: the model derives them from the table configured in /repo, the
        # variant from its own table (any valid table is safe: C01_fft_params_safe + C14_shipped_tables_valid): compare the product only
        bad = [(i, a, b) for (i, a, b) in bad if not (cs[i][0].startswith('mpn_mul_fft_main') and str(a).split()[-4:] == str(b).split()[-4:] and len(str(a).split()) == len(str(b).split()))]
        n += len(cs)
        for (i, a, b) in bad[:2]:
            bad_all.append((cs[i][0], a, b, modname))
    return n, bad_all

def run_variants(ctx, ev):
    import gen_tables
    pinned, tabs, ship = gen_tables.main()
    quick = ctx.tier == 'quick'
    tables = [(name, dd) for name, dd, ft in ship]
    rot = ctx.seed % max(1, len(tables))
    chosen_t = [tables[rot]] if quick else tables
    if quick and not (getattr(ctx, 'props', None) or {}).get('ok', True):
        # an obligation of Properties_C14.v is broken (for instance a shipped table is no longer a valid threshold vector):
        # search for a failing input under EVERY shipped table, the changed ones first
        rc, changed = vlib.sh(['git', '-C', vlib.REPO, 'diff', '--name-only', 'HEAD'], check=False)
        ch = set(changed.split())
        chosen_t = sorted(tables, key=lambda t: (t[0] not in ch, t[0]))
        ctx.extra_cov['variant_search'] = 'obligation broken: all %d shipped tables searched' % len(chosen_t)
    chosen_o = [OPTIONS[ctx.seed % len(OPTIONS)]] if quick else OPTIONS
    per = 400 if quick else 1500
    done = []
    for name, dd in chosen_t:
        thr = dict(pinned); thr.update(dd)
        impl = build_variant('table:' + name, mparam=os.path.join(vlib.REPO, name))
        n, bad = battery(ctx, name, impl, thr, per)
        if not quick: shutil.rmtree(impl, ignore_errors=True)     # disk: keep only what the quick tier re-uses
        done.append({'variant': 'gmp-mparam.h = ' + name, 'calls': n, 'disagreements': len(bad)})
        for ln, a, b, m in bad[:2]:
            ev.append({'kind': 'tuning-table', 'cases': [ln[:100000]], 'implementation_output': str(a)[:1500], 'model_output': str(b)[:1500], 'note': 'library built with %s differs from the model (%s cases)' % (name, m),
                       'key': name + ' ' + ln[:80], 'theorem': 'C14 (identical values under every shipped tuning table)'})
    for oname, conf in chosen_o:
        impl = build_variant('option:' + oname, conf=conf)
        n, bad = battery(ctx, oname, impl, dict(pinned), per)
        if not quick: shutil.rmtree(impl, ignore_errors=True)
        done.append({'variant': 'configure ' + conf, 'calls': n, 'disagreements': len(bad)})
        for ln, a, b, m in bad[:2]:
            ev.append({'kind': 'build-option', 'cases': [ln[:100000]], 'implementation_output': str(a)[:1500], 'model_output': str(b)[:1500], 'note': 'library configured with %s differs from the model (%s cases)' % (conf, m),
                       'key': oname + ' ' + ln[:80], 'theorem': 'C14 (identical values under every build option)'})
    ctx.extra_cov['library_variants'] = done
    ctx.extra_cov['variants_in_this_tier'] = 'quick: one shipped table and one configure option, rotating with VERIF_SEED; thorough: all %d tables and %d options' % (len(tables), len(OPTIONS))
    ctx.extra_cov['extra_evaluations'] = ctx.extra_cov.get('extra_evaluations', 0) + sum(x['calls'] for x in done)

def extra(ctx):
    ev = getattr(ctx, 'extra_violations', [])
    run_kernels(ctx, ev)
    run_variants(ctx, ev)
    ctx.extra_violations = ev
