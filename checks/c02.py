"""C02 — division: correspondence cases aimed at quotient-estimate corrections, equality
edges, single-limb divisor classes, every rounding/sign combination and the crossovers of
the tree's current threshold table."""
import os, sys
from gen import *
sys.path.insert(0, os.path.join(os.path.dirname(os.path.dirname(os.path.abspath(__file__))), 'translator'))
import gen_tables
import vlib

PID = 'C02'
RULE = ('cases = division entry point x constructed n = q*d + r (r in {0,1,d-1,random}; q all-ones / sparse / random; d normalised or with a tiny top limb, '
        'low part all-ones so that quotient estimates need one or two corrections; leading limbs of n equal to those of d) x sizes 1..40 and around every '
        'division crossover of the regenerated table x four sign combinations x alias patterns x single-limb divisor classes; word-level macros on a boundary grid; '
        'non-trivial = distinct case line with a non-zero dividend')
EXPLANATION = ('implementation vs extracted Coq models: word-level invert_limb/udiv_qrnnd_preinv1/invert_pi1/udiv_qr_3by2 transcriptions, the divrem_1 recurrence, and the '
               'mpz rounding families (tdiv/fdiv/cdiv q,r,qr,_ui,_2exp, mod, divexact, divisible_p, congruent_p) which Properties_C02.v proves equal to Z.quot/Z.rem/floor/ceiling division; '
               'large mpn_tdiv_qr results are certified by the model through n = q d + r modulo four moduli and 0 <= r < d')
ASSUMPTIONS = ['dc_div_*, inv_div_*, mpn_invert, Hensel/bdiv routines and the assembly division kernels are tied by execution only',
               'DIVIDE_BY_ZERO is observed as SIGFPE of the driver and mapped to the model\'s DivByZero tag']
TIMEOUT = 1500

def regenerate(ctx):
    ctx.thr = gen_tables.main()[0]

def nontrivial(line, tag):
    t = line.split()
    return len(t) > 2 and any(len(x) > 1 for x in t[1:])

def canon_impl(out):
    return 'x:' if out and 'CRASH-SIGNAL 8' in out else out

def valid(line):
    t = line.split()
    try:
        if t[0] in ('mpn_tdiv_qr', 'mpn_divrem'):
            nn, N, dn, D = int(t[1], 16), int(t[2], 16), int(t[3], 16), int(t[4], 16)
            return nn >= dn >= 1 and (D >> (64 * (dn - 1))) != 0 and N < (1 << (64 * nn)) and (t[0] != 'mpn_divrem' or (D >> (64 * dn - 1)) == 1)
        if t[0] in ('mpn_divrem_1', 'mpn_mod_1'):
            return int(t[3], 16) != 0
    except Exception:
        return False
    return True

def divisor(rng, dn, kind=None):
    """A divisor with exactly dn limbs."""
    kind = kind or rng.choice(['uniform', 'norm-min-lowones', 'tinytop-lowones', 'norm-max', 'pow2', 'runs', 'lowzero', 'norm-min'])
    bits = 64 * dn
    if kind == 'uniform':
        return nonzero_top(rng, dn, 'uniform')
    if kind == 'norm-min-lowones':          # 1000...0 0 [gap] 111...1
        gap = rng.choice([0, 0, 1, 2, 63, 64, 65]) if dn > 1 else 0
        low = max(0, bits - 1 - gap)
        return (1 << (bits - 1)) | ((1 << low) - 1)
    if kind == 'tinytop-lowones':           # top limb tiny (shift 61..63), everything below all ones
        top = rng.choice([1, 1, 2, 3, 5])
        lowbits = 64 * (dn - 1)
        gap = rng.choice([0, 0, 1, 64]) if dn > 2 else 0
        return (top << lowbits) | ((1 << max(0, lowbits - gap)) - 1)
    if kind == 'norm-max':
        return (1 << bits) - 1 - (rng.getrandbits(8) if rng.getrandbits(1) else 0)
    if kind == 'pow2':
        return 1 << rng.randrange(64 * (dn - 1), bits)
    if kind == 'runs':
        return nonzero_top(rng, dn, 'runs')
    if kind == 'lowzero':
        return nonzero_top(rng, dn, 'lowzero')
    if kind == 'norm-min':
        return (1 << (bits - 1)) | rng.getrandbits(8)
    raise ValueError(kind)

def quotient(rng, qn):
    kind = rng.choice(['ones', 'ones', 'uniform', 'onebit', 'ones-minus', 'runs', 'small'])
    if qn == 0:
        return 0
    if kind == 'ones':
        return (1 << (64 * qn)) - 1
    if kind == 'ones-minus':
        return (1 << (64 * qn)) - 1 - rng.getrandbits(6)
    if kind == 'small':
        return rng.randrange(0, 4)
    return limbs_value(rng, qn, {'uniform': 'uniform', 'onebit': 'onebit', 'runs': 'runs'}[kind])

def build_nd(rng, dn, qn, dkind=None):
    d = divisor(rng, dn, dkind)
    q = quotient(rng, qn)
    r = rng.choice([0, 1, d - 1, d - 2 if d > 2 else 0, rng.randrange(d), d >> 1])
    n = q * d + r
    nn = max(dn, (n.bit_length() + 63) // 64)
    if rng.random() < 0.3:
        nn += rng.choice([0, 1])            # a leading zero limb in the dividend
    return n, nn, d

def estimate_case(rng, dn, qn):
    """Operands for which a quotient estimate taken from the top limbs is one or two too large:
    the top qn limbs of the (normalised) divisor are minimal 100..0, everything below is (nearly)
    all ones, the quotient is (nearly) all ones; the top limb of d is tiny or full."""
    s = rng.choice([0, 0, 0, 1, 2, 3, 31, 62, 63])            # bits of the top limb above bit 0
    topbit = 64 * (dn - 1) + s
    z = 64 * qn - 1 + rng.choice([0, 0, 0, 1, -1, 2, -2, 3, 64, -64, rng.randrange(-8, 9), rng.randrange(-70, 71), rng.randrange(-70, 71)])
    low = max(0, topbit - max(0, z))
    lowpart = (1 << low) - 1
    k = rng.random()
    if k < 0.3 and low > 8:
        lowpart ^= (1 << rng.randrange(low))                  # one zero bit somewhere
    elif k < 0.5 and low > 70:
        lowpart &= ~((1 << rng.randrange(0, min(low, 70))) - 1)  # some low zeros
    d = (1 << topbit) | lowpart
    qk = rng.random()
    q = (1 << (64 * qn)) - 1
    if qk < 0.3: q -= rng.getrandbits(rng.choice([1, 8, 30, 62]))
    elif qk < 0.45: q = (1 << (64 * qn - 1))
    elif qk < 0.55: q >>= rng.randrange(1, 64)
    r = rng.choice([d - 1, d - 1, d - 2, d - 1 - rng.getrandbits(min(60, max(1, d.bit_length() - 2))), rng.randrange(d), d >> 1, 0])
    n = q * d + r
    nn = max(dn, (n.bit_length() + 63) // 64)
    return n, nn, d

def cases(ctx, tier):
    rng = ctx.rng('cases')
    T = getattr(ctx, 'thr', None) or gen_tables.main()[0]
    quick = tier == 'quick'
    out = []
    # ---- word level
    dE = [1 << 63, (1 << 63) + 1, B - 1, B - 2, (1 << 63) + (1 << 32), 0xC000000000000000, 0xFFFFFFFF00000001, 0x8000000000000001 | (1 << 31)]
    for _ in range(4000 if quick else 40000):
        d = rng.choice(dE) if rng.random() < 0.35 else (rng.getrandbits(63) | (1 << 63))
        nh = rng.choice([0, 1, d - 1, d - 2, d >> 1, rng.randrange(d)])
        nl = rng.choice([0, 1, B - 1, B - 2, d, d - 1, rng.getrandbits(64), (1 << 63), (1 << 63) - 1])
        nl %= B
        out.append(('udiv_preinv1 %x %x %x' % (nh, nl, d), 'preinv1'))
        out.append(('udiv_preinv2 %x %x %x' % (nh, nl, d), 'preinv2'))
        out.append(('invert_limb %x' % d, 'invert_limb'))
        d0 = rng.choice([0, 1, B - 1, B - 2, d, rng.getrandbits(64), 1 << 63])
        d0 %= B
        out.append(('invert_pi1 %x %x' % (d, d0), 'invert_pi1'))
        D2 = d * B + d0
        # n2:n1 < d1:d0
        x = rng.choice([D2 - 1, D2 - 2, rng.randrange(D2), (d << 64), max(0, (d << 64) - 1), D2 >> 1, rng.randrange(D2) & ~((1 << 64) - 1)])
        x = min(x, D2 - 1)
        n0 = rng.choice([0, 1, B - 1, d0, (d0 - 1) % B, rng.getrandbits(64)])
        out.append(('udiv_3by2 %x %x %x %x %x' % (x >> 64, x & (B - 1), n0, d, d0), '3by2'))
    # ---- one-limb divisors
    dcls = lambda: rng.choice([1, 2, 3, 5, 7, 10, B - 1, B - 2, 1 << 63, (1 << 63) + 1, (1 << 32) - 1, 1 << 32, (1 << rng.randrange(64)),
                               (1 << rng.randrange(1, 65)) - 1, rng.getrandbits(64) | 1, rng.getrandbits(64) & ~1 or 2, rng.getrandbits(rng.randrange(1, 65)) or 1])
    for n in range(1, (41 if quick else 120)):
        for _ in range(6 if quick else 12):
            d = dcls()
            N = limbs_value(rng, n)
            if rng.random() < 0.3:
                N = (quotient(rng, n) * d + rng.choice([0, d - 1])) % (1 << (64 * n))
            out.append(('mpn_divrem_1 %x %x %x' % (n, N, d), 'divrem_1'))
            out.append(('mpn_mod_1 %x %x %x' % (n, N, d), 'mod_1'))
        m = limbs_value(rng, n) // 3 * 3
        out.append(('mpn_divexact_by3 %x %x' % (n, m), 'divexact_by3'))
        out.append(('mpn_divexact_by3 %x %x' % (n, ((1 << (64 * n)) - 1) // 3 * 3), 'divexact_by3'))
    # ---- mpn_tdiv_qr: all small shapes, constructed operands
    lim = 14 if quick else 24
    for dn in range(1, lim + 1):
        for qn in range(0, lim + 1):
            for rep in range(2 if quick else 4):
                n, nn, d = build_nd(rng, dn, qn)
                out.append(('mpn_tdiv_qr %x %x %x %x' % (nn, n, dn, d), 'tdiv_qr-small'))
    # short quotient / estimate-correction family across sizes
    for _ in range(1500 if quick else 12000):
        dn = rng.choice([2, 3, 4, 5, 6, 7, 8, 9, 12, 17, 25, 33])
        qn = rng.randrange(1, dn + 1) if rng.random() < 0.7 else rng.randrange(1, 2 * dn + 2)
        n, nn, d = build_nd(rng, dn, qn, rng.choice(['tinytop-lowones', 'norm-min-lowones', 'tinytop-lowones', 'norm-min', 'uniform']))
        out.append(('mpn_tdiv_qr %x %x %x %x' % (nn, n, dn, d), 'tdiv_qr-estimate'))
    for _ in range(6000 if quick else 60000):
        dn = rng.choice([3, 3, 4, 5, 6, 6, 7, 8, 9, 11, 14, 20])
        qn = rng.randrange(1, dn) if rng.random() < 0.8 else rng.randrange(1, 2 * dn)
        n, nn, d = estimate_case(rng, dn, qn)
        out.append(('mpn_tdiv_qr %x %x %x %x' % (nn, n, dn, d), 'tdiv_qr-estimate2'))
    # the quotient-only routines (mpz_tdiv_q / fdiv_q / cdiv_q use mpn_tdiv_q, which estimates a short quotient from truncated
    # operands and multiplies back only when the fraction limb below the quotient is small): divisors much longer than the quotient
    for _ in range(4000 if quick else 40000):
        dn = rng.choice([6, 7, 8, 9, 10, 11, 13, 13, 17, 20, 26, 33, 40])
        qn = rng.randrange(1, max(2, dn - 5)) if rng.random() < 0.8 else rng.randrange(1, dn + 2)
        n, nn, d = estimate_case(rng, dn, qn)
        f = rng.choice(['tdiv_q', 'tdiv_q', 'tdiv_q', 'fdiv_q', 'cdiv_q'])
        out.append(('mpz_%s %s %s %d' % (f, hx(n * rng.choice([1, 1, -1])), hx(d * rng.choice([1, 1, -1])), rng.choice([0, 0, 1, 2])), 'mpz_q-only-estimate'))
    # leading limbs of n equal those of d
    for _ in range(300 if quick else 3000):
        dn = rng.randrange(2, 20); d = divisor(rng, dn)
        k = rng.randrange(0, dn + 3)
        n = (d << (64 * k)) + rng.choice([0, -1, 1, rng.getrandbits(64 * k) if k else 0])
        n = max(n, 0); nn = max(dn, (n.bit_length() + 63) // 64)
        out.append(('mpn_tdiv_qr %x %x %x %x' % (nn, n, dn, d), 'tdiv_qr-equal-lead'))
    # crossovers (exact model up to moderate sizes)
    xs = [T.get(k) for k in ('DC_DIV_QR_THRESHOLD', 'DC_DIV_Q_THRESHOLD', 'DC_DIVAPPR_Q_THRESHOLD', 'INV_DIVAPPR_Q_N_THRESHOLD', 'DC_BDIV_QR_THRESHOLD') if T.get(k)]
    for t in sorted(set(xs)):
        for dn in (t - 1, t, t + 1):
            for qn in (1, 2, dn // 2, dn - 1, dn, dn + 1, 2 * dn + 1):
                if dn >= 1 and qn >= 0 and (dn + qn) <= (260 if quick else 500):
                    n, nn, d = build_nd(rng, dn, qn)
                    out.append(('mpn_tdiv_qr %x %x %x %x' % (nn, n, dn, d), 'tdiv_qr-crossover'))
        for qn in (t - 1, t, t + 1):
            for dn in (2, 5, qn // 2 + 1):
                if qn + dn <= (260 if quick else 500):
                    n, nn, d = build_nd(rng, dn, qn)
                    out.append(('mpn_tdiv_qr %x %x %x %x' % (nn, n, dn, d), 'tdiv_qr-crossover-q'))
    # mpn_divrem with a normalised divisor
    for _ in range(300 if quick else 2000):
        dn = rng.randrange(1, 12); qn = rng.randrange(0, 12)
        d = divisor(rng, dn, rng.choice(['norm-min-lowones', 'norm-max', 'norm-min'])) if dn >= 1 else 1
        d |= 1 << (64 * dn - 1)
        q = quotient(rng, qn); r = rng.choice([0, d - 1, rng.randrange(d)])
        n = q * d + r; nn = max(dn, (n.bit_length() + 63) // 64)
        out.append(('mpn_divrem %x %x %x %x' % (nn, n, dn, d), 'divrem'))
    # ---- mpz families
    fam3 = ['tdiv_qr', 'fdiv_qr', 'cdiv_qr']
    fam1 = ['tdiv_q', 'tdiv_r', 'fdiv_q', 'fdiv_r', 'cdiv_q', 'cdiv_r', 'mod']
    for _ in range(600 if quick else 6000):
        dn = rng.randrange(1, 7); qn = rng.randrange(0, 7)
        n, nn, d = build_nd(rng, dn, qn)
        sn = rng.choice([1, -1]); sd = rng.choice([1, -1])
        for f in fam3:
            out.append(('mpz_%s %s %s %d' % (f, hx(sn * n), hx(sd * d), rng.choice([0, 0, 1, 2, 3, 4, 5, 6])), 'mpz_' + f))
        for f in fam1:
            out.append(('mpz_%s %s %s %d' % (f, hx(sn * n), hx(sd * d), rng.choice([0, 0, 1, 2])), 'mpz_' + f))
        m = abs(n) - abs(n) % d
        out.append(('mpz_divexact %s %s %d' % (hx(sn * m), hx(sd * d), rng.choice([0, 1, 2])), 'mpz_divexact'))
        dl = dcls()
        nv = sn * (quotient(rng, rng.randrange(0, 5)) * dl + rng.choice([0, 1, dl - 1]))
        for f in ('tdiv', 'fdiv', 'cdiv'):
            for form in ('qr_ui', 'q_ui', 'r_ui', 'ui'):
                out.append(('mpz_%s_%s %s %x %d' % (f, form, hx(nv), dl, rng.choice([0, 0, 1, 2]) if form != 'ui' else 0), 'mpz_%s_%s' % (f, form)))
        out.append(('mpz_mod_ui %s %x %d' % (hx(nv), dl, rng.getrandbits(1)), 'mpz_mod_ui'))
        out.append(('mpz_divexact_ui %s %x %d' % (hx(nv - nv % dl), dl, rng.getrandbits(1)), 'mpz_divexact_ui'))
        out.append(('mpz_divisible_ui_p %s %x' % (hx(nv), dl), 'divisible_ui_p'))
        out.append(('mpz_divisible_ui_p %s %x' % (hx(nv - nv % dl), dl), 'divisible_ui_p'))
        c = rng.choice([0, 1, dl - 1, rng.getrandbits(64)])
        out.append(('mpz_congruent_ui_p %s %x %x' % (hx(nv), c, dl), 'congruent_ui_p'))
        out.append(('mpz_congruent_ui_p %s %x %x' % (hx(nv - nv % dl + c), c % B, dl), 'congruent_ui_p'))
        v = signed_value(rng, 6)
        bl = abs(v).bit_length()
        for cnt in set([0, 1, 63, 64, 65, rng.randrange(0, bl + 70), 64 * rng.randrange(0, bl // 64 + 2), max(0, bl - 1), bl, bl + 1]):
            for f in ('tdiv', 'fdiv', 'cdiv'):
                out.append(('mpz_%s_q_2exp %s %x %d' % (f, hx(v), cnt, rng.getrandbits(1)), 'mpz_q_2exp'))
                out.append(('mpz_%s_r_2exp %s %x %d' % (f, hx(v), cnt, rng.getrandbits(1)), 'mpz_r_2exp'))
            out.append(('mpz_divisible_2exp_p %s %x' % (hx(v), cnt), 'divisible_2exp_p'))
            w = v + rng.choice([0, 1 << cnt, -(1 << cnt), 1 << max(0, cnt - 1), (1 << cnt) * rng.getrandbits(70)])
            out.append(('mpz_congruent_2exp_p %s %s %x' % (hx(v), hx(w), cnt), 'congruent_2exp_p'))
    # divisibility / congruence with divisors that have low zero limbs and even cofactors
    for _ in range(1500 if quick else 15000):
        c = rng.choice([1, 2, 3, 6, 10, 12, rng.getrandbits(64) | 1, (rng.getrandbits(64) | 1) * 2, (rng.getrandbits(63) | 1) << rng.randrange(1, 8),
                        nonzero_top(rng, 2), nonzero_top(rng, 3), (1 << 64) + 2, 6 * (1 << 64) + 6])
        s = rng.choice([0, 1, 5, 63, 64, 65, 128, 130, 192])
        d = c << s
        odd = c >> ((c & -c).bit_length() - 1)
        t2 = (c & -c).bit_length() - 1 + s                      # trailing zero bits of d
        m = rng.choice([1, 3, rng.getrandbits(64) | 1, rng.getrandbits(130) | 1])
        ta = rng.choice([t2, t2 - 1, t2 + 1, max(0, t2 - 64), t2 + 64, 0, max(0, s - 1), s])
        ta = max(0, ta)
        a = (m * odd << ta) * rng.choice([1, -1])
        sd = rng.choice([1, -1])
        out.append(('mpz_divisible_p %s %s' % (hx(a), hx(sd * d)), 'divisible_p-2adic'))
        a2 = a + rng.choice([0, 0, 1, d, -d])
        out.append(('mpz_divisible_p %s %s' % (hx(a2), hx(sd * d)), 'divisible_p'))
        cc = signed_value(rng, 3)
        out.append(('mpz_congruent_p %s %s %s' % (hx(a + cc), hx(cc), hx(sd * d)), 'congruent_p-2adic'))
        out.append(('mpz_congruent_p %s %s %s' % (hx(a2 + cc), hx(cc), hx(sd * d)), 'congruent_p'))
    # manual's d = 0 cases (defined): divisible_p (n,0) <=> n = 0 ; congruent_p (a,c,0) <=> a = c
    for v in (0, 1, -1, 1 << 64, -(1 << 130)):
        out.append(('mpz_divisible_p %s 0' % hx(v), 'divisible_p-d0'))
        out.append(('mpz_congruent_p %s %s 0' % (hx(v), hx(v)), 'congruent_p-d0'))
        out.append(('mpz_congruent_p %s %s 0' % (hx(v), hx(v + 1)), 'congruent_p-d0'))
        out.append(('mpz_divisible_ui_p %s 0' % hx(v), 'divisible_ui_p-d0'))
    # division by zero is the library's deliberate trap
    for f in ('mpz_tdiv_q', 'mpz_fdiv_r', 'mpz_cdiv_q', 'mpz_mod'):
        out.append(('%s %s 0 0' % (f, hx(rng.getrandbits(70))), 'div-by-zero'))
    out.append(('mpz_fdiv_q_ui 12345 0 0', 'div-by-zero'))
    # mpn_dc_div_qr_n called directly against the divide-and-conquer model (C02_dc_div_qr_n): numerators whose top half equals or
    # exceeds the divisor (qh = 1), divisors just above B^n/2 with all-ones low halves (largest over-estimate of the partial quotient)
    for n in (list(range(6, 40)) + [49, 50, 51, 99, 100, 101, 150] if quick else list(range(6, 220))):
        for rep in range(3 if quick else 8):
            Bn = 1 << (64 * n)
            k = rng.random()
            if k < 0.3: d = (Bn >> 1) + rng.getrandbits(64 * (n // 2)) if rng.random() < 0.5 else (Bn >> 1) | ((1 << (64 * (n // 2))) - 1)
            elif k < 0.5: d = Bn - 1 - rng.getrandbits(rng.choice([1, 64, 64 * (n // 2)]))
            else: d = nonzero_top(rng, n, rng.choice(['uniform', 'runs', 'ones'])) | (1 << (64 * n - 1))
            k = rng.random()
            if k < 0.25: N = d * Bn + rng.getrandbits(64 * n)
            elif k < 0.4: N = Bn * Bn - 1 - rng.getrandbits(rng.choice([1, 64 * n]))
            elif k < 0.6:
                q = rng.choice([Bn - 1, Bn - rng.getrandbits(64) - 1, (1 << (64 * (n // 2))) - 1, rng.getrandbits(64 * n)])
                N = q * d + rng.choice([0, d - 1, rng.randrange(d)])
            else: N = limbs_value(rng, 2 * n)
            N %= Bn * Bn
            out.append(('mpn_dc_div_qr_n %x %s %s' % (n, hx(N), hx(d)), 'dc_div_qr_n-direct'))
    # mpn_sb_div_qr called directly against the schoolbook model (C02_sb_div_qr): top limbs equal to the divisor's (q = B-1 branch),
    # divisors <2^63, 0, ..., B-1> (estimate one too large: the add-back), nn = dn, long quotients
    for dn in (list(range(3, 14)) + [20, 31] if quick else list(range(3, 60))):
        for rep in range(8 if quick else 20):
            Bd = 1 << (64 * dn)
            k = rng.random()
            if k < 0.3: d = (1 << (64 * dn - 1)) | ((1 << (64 * rng.randrange(1, dn))) - 1)
            elif k < 0.5: d = Bd - 1 - rng.getrandbits(rng.choice([1, 64, 64 * (dn - 1)]))
            else: d = nonzero_top(rng, dn, rng.choice(['uniform', 'runs', 'ones'])) | (1 << (64 * dn - 1))
            nn = dn + rng.choice([0, 1, 1, 2, 3, dn, 2 * dn])
            k = rng.random()
            if k < 0.3:      # top limbs of the running remainder equal the divisor's two top limbs
                top2 = d >> (64 * (dn - 2))
                N = (top2 << (64 * (nn - 2))) | rng.getrandbits(64 * (nn - 2))
                if rng.random() < 0.5: N -= 1 << (64 * (nn - 2) - 1)
            elif k < 0.5:
                q = rng.getrandbits(64 * (nn - dn)) if nn > dn else 0
                N = q * d + rng.choice([0, d - 1, rng.randrange(d)])
            elif k < 0.6: N = (1 << (64 * nn)) - 1 - rng.getrandbits(rng.choice([1, 64]))
            else: N = limbs_value(rng, nn)
            N = max(0, N) % (1 << (64 * nn))
            out.append(('mpn_sb_div_qr %x %s %x %s' % (nn, hx(N), dn, hx(d)), 'sb_div_qr-direct'))
    return out

def big_cases(ctx, tier):
    """(nn, n, dn, d) too large for exact model evaluation: certified by the model."""
    rng = ctx.rng('big')
    T = getattr(ctx, 'thr', None) or gen_tables.main()[0]
    quick = tier == 'quick'
    res = []
    xs = sorted(set(T.get(k) for k in ('INV_DIV_Q_THRESHOLD', 'INV_DIV_QR_THRESHOLD', 'DC_DIV_QR_THRESHOLD', 'DC_DIV_Q_THRESHOLD') if T.get(k)))
    if not quick and T.get('INV_DIVAPPR_Q_THRESHOLD'):
        xs.append(T['INV_DIVAPPR_Q_THRESHOLD'])
    for t in xs:
        for dn in (t - 1, t, t + 1):
            for qn in ([1, dn // 3, dn, 2 * dn] if t < 3000 else [dn // 2]):
                if qn >= 1 and dn >= 2 and dn + qn > 250 and dn + qn < (7000 if quick else 60000):
                    res.append(build_nd(rng, dn, qn))
        for qn in (t - 1, t, t + 1):
            for dn in (3, qn // 3 + 2, qn, 2 * qn):
                if dn + qn > 250 and dn + qn < (7000 if quick else 60000):
                    res.append(build_nd(rng, dn, qn))
    for _ in range(20 if quick else 200):
        dn = int(2 ** rng.uniform(6, 11.5 if quick else 13.5)); qn = int(2 ** rng.uniform(3, 11.5 if quick else 13.5))
        if dn + qn > 250:
            res.append(build_nd(rng, dn, qn))
    return res

def extra(ctx):
    """Large divisions: run the implementation, then let the model certify n = q d + r, 0 <= r < d."""
    big = big_cases(ctx, ctx.tier)
    lines = ['mpn_tdiv_qr %x %x %x %x' % (nn, n, dn, d) for (n, nn, d) in [(a, b, c) for (a, b, c) in big] for dn in [((d.bit_length() + 63) // 64)]]
    outs = vlib.run_robust(vlib.impl_cmd(ctx.impl), lines, timeout=1500, died='CRASH')
    cert = []
    bad = []
    for (n, nn, d), ln, o in zip(big, lines, outs):
        toks = o.split()
        if len(toks) != 2 or not all(all(ch in '0123456789abcdef' for ch in t) for t in toks):
            bad.append((ln, o, 'malformed or flagged output'))
            cert.append(None)
            continue
        cert.append('divcheck %x %x %s %s' % (n, d, toks[0], toks[1]))
    cl = [c for c in cert if c]
    mo = vlib.run_robust(vlib.model_cmd(), cl, timeout=1500, died='MODEL-DIED') if cl else []
    it = iter(mo)
    nb = 0
    for (n, nn, d), ln, c in zip(big, lines, cert):
        if c is None:
            continue
        m = next(it)
        if vlib.timed_out(ctx, m): continue
        if m.strip() != '1':
            bad.append((ln, c, 'model rejects the certificate: ' + m[:80]))
        nb += 1
    ctx.extra_cov['large_divisions_certified'] = nb
    ctx.extra_cov['large_division_sizes'] = sorted(set((nn, (d.bit_length() + 63) // 64) for (n, nn, d) in big))[:40]
    ev = getattr(ctx, 'extra_violations', [])
    for ln, o, why in bad[:3]:
        ev.append({'kind': 'large-division-certificate', 'cases': [ln[:100000]], 'implementation_output': o[:2000], 'note': why,
                   'key': ln[:200], 'theorem': 'C02_divcheck_complete / C02_tdiv_qr (n = q d + r, 0 <= r < d)'})
    ctx.extra_violations = ev
