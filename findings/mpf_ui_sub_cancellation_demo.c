#include <stdio.h>
#include "mpir.h"
/* (x+1).000 minus x.fff...: mpf_ui_sub must not lose all significant bits */
int main(void)
{
  mpf_t v, r, e, d; mpf_init2(v, 512); mpf_init2(r, 129); mpf_init2(e, 512); mpf_init2(d, 512);
  mpf_set_ui(v, 1); mpf_div_2exp(v, v, 255);          /* 2^-255 */
  mpf_ui_sub(v, 2, v);                                  /* v = 2 - 2^-255 (exact at 512 bits) */
  mpf_ui_sub(r, 2, v);                                  /* exact result 2^-255, destination of 192 bits */
  mpf_set_ui(e, 1); mpf_div_2exp(e, e, 255);
  mpf_sub(d, r, e); mpf_abs(d, d);
  mpf_div(d, d, e);                                     /* relative error */
  gmp_printf("result %.20Fe expected %.20Fe relative error %.3Fe\n", r, e, d);
  int bad = mpf_cmp_d(d, 1e-50) > 0;
  printf(bad ? "FAIL\n" : "PASS\n");
  return bad;
}
