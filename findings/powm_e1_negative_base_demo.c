#include <stdio.h>
#include "mpir.h"
#include "gmp-impl.h"
int main(void){
  mpz_t r,b,e,m;
  mpz_init(r);mpz_init(b);mpz_init(e);mpz_init(m);
  mpz_set_ui(m,1); mpz_mul_2exp(m,m,128);      /* m = B^2, 3 limbs */
  mpz_set(b,m); mpz_sub_ui(b,b,1); mpz_neg(b,b); /* b = -(B^2-1), 2 limbs */
  mpz_set_ui(e,1);
  mpz_powm(r,b,e,m);
  printf("SIZ(r)=%d limbs:", (int)SIZ(r));
  for(int i=0;i<ABSIZ(r);i++) printf(" %lx", PTR(r)[i]);
  printf("\ncmp_ui(r,1)=%d\n", mpz_cmp_ui(r,1));
  gmp_printf("r=%Zd\n", r);
  return 0;
}
