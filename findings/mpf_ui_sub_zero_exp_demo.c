#include <stdio.h>
#include "mpir.h"
int main(void)
{
  mpf_t v, r; mpf_init2(v, 128); mpf_init2(r, 128);
  mpf_set_ui(v, 1);
  mpf_ui_sub(r, 1, v);              /* 1 - 1 = 0 */
  printf("size=%d exp=%ld\n", r->_mp_size, (long) r->_mp_exp);
  int bad = !(r->_mp_size == 0 && r->_mp_exp == 0);
  mpf_set_d(v, 3.0); mpf_div_2exp(v, v, 70);   /* another exact cancellation with a shifted operand */
  mpf_mul_2exp(v, v, 70);
  mpf_ui_sub(r, 3, v);
  printf("size=%d exp=%ld\n", r->_mp_size, (long) r->_mp_exp);
  bad |= !(r->_mp_size == 0 && r->_mp_exp == 0);
  printf(bad ? "FAIL: zero result with non-zero exponent\n" : "PASS\n");
  return bad;
}
