// cxx_long_min_div_demo.cc — property C20: "long / mpz_class" and "long % mpz_class" computed l / mpz_get_si(w) in C
// arithmetic: for l = LONG_MIN and w = -1 the division overflows and the process dies with SIGFPE, while the C
// function (mpz_tdiv_q / mpz_tdiv_r on temporaries) gives 2^63 and 0.  Fixed in /repo (mpirxx.h).
// build: g++ -I<build> cxx_long_min_div_demo.cc <build>/.libs/libmpirxx.a <build>/.libs/libmpir.a -o demo   (configure --enable-cxx)
#include <climits>
#include <iostream>
#include "mpirxx.h"
int main()
{
  mpz_class w(-1), q, r;
  long l = LONG_MIN;
  q = l / w;                    // dies here before the fix
  r = l % w;
  mpz_class expect; mpz_ui_pow_ui(expect.get_mpz_t(), 2, 63);
  std::cout << "LONG_MIN / -1 = " << q << ", LONG_MIN % -1 = " << r << std::endl;
  if (q != expect || r != 0) { std::cout << "FAIL" << std::endl; return 1; }
  std::cout << "PASS" << std::endl; return 0;
}
