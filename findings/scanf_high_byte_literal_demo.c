/* gmp_sscanf: a literal byte above 127 in the format never matches the same byte in the input
   (doscan.c compares the unsigned char read from the input with a plain, signed, char of the format).
   C's sscanf matches it.  gcc -I/repo demo.c /repo/.libs/libmpir.a */
#include <stdio.h>
#include "mpir.h"
int main(void)
{
  mpz_t z; int bad = 0, r; long l = 0;
  mpz_init(z);
  r = gmp_sscanf("Gr\xc3\xb6\xc3\x9f" "e: 42", "Gr\xc3\xb6\xc3\x9f" "e: %Zd", z);
  if (r != 1 || mpz_cmp_ui(z, 42) != 0) { printf("FAIL gmp_sscanf returns %d\n", r); bad = 1; }
  r = sscanf("Gr\xc3\xb6\xc3\x9f" "e: 42", "Gr\xc3\xb6\xc3\x9f" "e: %ld", &l);
  if (r != 1 || l != 42) { printf("unexpected: C sscanf returns %d\n", r); bad = 1; }
  r = gmp_sscanf("\xe9" "5", "\xe9%Zd", z);
  if (r != 1 || mpz_cmp_ui(z, 5) != 0) { printf("FAIL gmp_sscanf (\"\\xe9%%Zd\") returns %d\n", r); bad = 1; }
  puts(bad ? "FAIL" : "PASS");
  return bad;
}
