#include <stdio.h>
#include <string.h>
#include "mpir.h"
int main(void)
{
  /* header announces 16 data bytes, the stream ends after 3 */
  unsigned char buf[7] = { 0, 0, 0, 16, 1, 2, 3 };
  FILE *fp = fmemopen(buf, sizeof buf, "rb");
  mpz_t x; mpz_init_set_ui(x, 12345);
  size_t r = mpz_inp_raw(x, fp);
  fclose(fp);
  int n = (int) mpz_size(x);
  int bad = (r != 0) || (n > 0 && mpz_getlimbn(x, n - 1) == 0);
  printf("return=%lu size=%d top limb=%lx\n", (unsigned long) r, n, n ? (unsigned long) mpz_getlimbn(x, n - 1) : 0UL);
  printf(bad ? "FAIL: malformed object after failed read\n" : "PASS\n");
  mpz_clear(x);
  return bad;
}
