#include <stdio.h>
#include <signal.h>
#include <setjmp.h>
#include "mpir.h"
static sigjmp_buf jb; static void h(int s){ siglongjmp(jb, s); }
int main(void){
  mpz_t n; mpz_init(n); gmp_randstate_t rs; gmp_randinit_default(rs);
  signal(SIGFPE, h);
  for (int v = 0; v <= 4; v++) {
    mpz_set_ui(n, v);
    for (int f = 0; f < 4; f++) {
      int s = sigsetjmp(jb, 1);
      if (s) { printf("n=%d fn=%d SIGNAL %d\n", v, f, s); continue; }
      int r = f==0 ? mpz_probab_prime_p(n, 5) : f==1 ? mpz_probable_prime_p(n, rs, 5, 0) : f==2 ? mpz_likely_prime_p(n, rs, 0) : mpz_miller_rabin(n, 5, rs);
      printf("n=%d fn=%d -> %d\n", v, f, r);
    }
  }
  return 0; }
