/* lc_2exp_odd_m2exp_demo.c — gmp_randinit_lc_2exp with an ODD m2exp (property C19).
   randget_lc() took m2exp/2 bits per step while lc() delivers (m2exp+1)/2: the extra top bit of each step
   was OR-ed onto the first bit of the next one.  Consequences shown here, all gone after the fix in /repo:
     1. bits at chunk boundaries are 1 with probability 3/4;
     2. mpz_urandomb can return a value of more than n bits;
     3. m2exp = 1 never returns (chunk size 0) — run with argument "hang" to see it.
   build: gcc -I<build> lc_2exp_odd_m2exp_demo.c <build>/.libs/libmpir.a -o demo */
#include <stdio.h>
#include <string.h>
#include "mpir.h"
int main(int argc, char **argv)
{
  int bad = 0; gmp_randstate_t st; mpz_t a, r; mpz_init_set_str(a, "51F666D", 16); mpz_init(r);
  gmp_randinit_lc_2exp(st, a, 1, 33); gmp_randseed_ui(st, 12345);
  long ones = 0, N = 40000;
  for (long i = 0; i < N; i++) { mpz_urandomb(r, st, 150); ones += mpz_tstbit(r, 16); }
  printf("m2exp=33: bit 16 is set in %.3f of the draws (expected 0.5)\n", (double)ones / N);
  if (ones > N * 0.55) { printf("FAIL: biased bit\n"); bad = 1; }
  gmp_randclear(st);
  mpz_set_str(a, "292787EBD3329AD7E7575E2FD", 16); gmp_randinit_lc_2exp(st, a, 1, 101); gmp_randseed_ui(st, 7);
  for (long i = 0; i < N; i++) { mpz_urandomb(r, st, 150); if (mpz_sizeinbase(r, 2) > 150) { printf("FAIL: mpz_urandomb(150) returned %lu bits (m2exp=101)\n", (unsigned long)mpz_sizeinbase(r, 2)); bad = 1; break; } }
  gmp_randclear(st);
  if (argc > 1 && !strcmp(argv[1], "hang")) { gmp_randinit_lc_2exp(st, a, 1, 1); mpz_urandomb(r, st, 8); printf("m2exp=1 returned\n"); gmp_randclear(st); }
  mpz_clear(a); mpz_clear(r);
  printf(bad ? "FAIL\n" : "PASS\n"); return bad;
}
