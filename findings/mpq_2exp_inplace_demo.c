#include <stdio.h>
#include "mpir.h"
int main(void)
{
  mpq_t x, y, r;
  mpq_init(x); mpq_init(y); mpq_init(r);
  /* numerator = (odd 4-limb number) * 2^128, denominator 1 */
  mpz_set_str(mpq_numref(x), "123456789abcdef0fedcba9876543210aaaaaaaabbbbbbbbccccccccdddddddd1111111122222223", 16);
  mpz_mul_2exp(mpq_numref(x), mpq_numref(x), 128);
  mpq_set(y, x);
  mpq_div_2exp(r, y, 64);      /* distinct variables */
  mpq_div_2exp(x, x, 64);      /* in place */
  gmp_printf("distinct: %Qx\nin place: %Qx\n", r, x);
  printf(mpq_equal(r, x) ? "PASS\n" : "FAIL\n");
  return !mpq_equal(r, x);
}
