/* nsumdiff_n_return_demo.c — the portable mpn_nsumdiff_n (s = -(x+y), d = x-y) returned
   borrow(d) + 2*borrow(neg) when s, d are separate from x, y: the carry of x+y was overwritten ("ret = " for "ret += "),
   while the aliased branches of the same function and the assembly kernel (mpn/x86_64/haswell/nsumdiff_n.as) return
   borrow(d) + 2*(carry(x+y) + borrow(neg)), which is what fft/butterfly_rshB.c relies on.  A fat build uses the portable
   routine on every CPU without its own kernel (property C14).  Fixed in /repo 0921054.
   build: gcc -I<build> nsumdiff_n_return_demo.c <build>/.libs/libmpir.a -o demo */
#include <stdio.h>
#include "mpir.h"
#include "gmp-impl.h"
int main(void)
{
  mp_limb_t x[1] = { 0xf291ee9105ab31a7UL }, y[1] = { 0x0fffffffffffffffUL }, s[1], d[1], s2[1], d2[1];
  mp_limb_t r1 = mpn_nsumdiff_n(s, d, x, y, 1);             /* separate operands */
  s2[0] = x[0]; d2[0] = y[0];
  mp_limb_t r2 = mpn_nsumdiff_n(s2, d2, s2, d2, 1);           /* in place: the other branch of the same function */
  printf("separate: ret=%lu  in place: ret=%lu  (x+y carries, so both must be 4)\n", (unsigned long)r1, (unsigned long)r2);
  if (r1 != r2 || s[0] != s2[0] || d[0] != d2[0]) { printf("FAIL\n"); return 1; }
  printf("PASS\n"); return 0;
}
