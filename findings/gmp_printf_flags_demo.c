/* gmp_printf_flags_demo.c — five places where gmp_printf output differed from the C library for the equal long
   value, for format specifications to which C gives a meaning (property C18).  Before the fix: commits in /repo
   (8ad1f66, b5696a7, 83b5741, 3326cdb, 1710a15) every line prints DIFFERENT; after them SAME.
   build: gcc -I<build> gmp_printf_flags_demo.c <build>/.libs/libmpir.a -o demo */
#include <stdio.h>
#include <string.h>
#include "mpir.h"
static int bad = 0;
#define CMP(zfmt, lfmt, v, ...) do { char a[128], b[128]; mpz_t z; mpz_init_set_si(z, v); \
  gmp_snprintf(a, sizeof a, zfmt, ##__VA_ARGS__, z); snprintf(b, sizeof b, lfmt, ##__VA_ARGS__, (long)(v)); \
  printf("%-12s of %4ld: mpir \"%s\"  libc \"%s\"  %s\n", zfmt, (long)(v), a, b, strcmp(a, b) ? "DIFFERENT" : "SAME"); bad |= strcmp(a, b) != 0; mpz_clear(z); } while (0)
int main(void)
{
  CMP("%+ Zd", "%+ ld", 0);              /* '+' must win over ' ' */
  CMP("%-0+12.4Zi", "%-0+12.4li", -42);  /* '-' must override '0': blanks on the right, not zeros (-00420000000 reads as another number) */
  CMP("%-05Zd", "%-05ld", 7);
  CMP("%08.3Zd", "%08.3ld", 5);          /* '0' is ignored when a precision is given */
  CMP("%.*Zd", "%.*ld", 0, -1);          /* negative '*' precision = omitted: 0 prints as "0" */
  CMP("%#.4Zo", "%#.4lo", 1);            /* '#' adds a leading zero only if needed */
  return bad;
}
