"""scangen.py — C18: (format, input, slots) cases for gmp_sscanf / gmp_fscanf: curated single directives over curated inputs,
widths relative to the field length, C-library fields, literals / white space / %% / %n forms / end of input, and random
multi-directive formats with perturbed inputs.  (Written with the as-coded model DoscanDefs.v; slots = one letter per pointer
argument.)"""

def gen_tests(R, nrandom):
    tests = []   # (fmt bytes, input bytes, slots)
    def add(fmt, inp, slots):
        if isinstance(fmt, str): fmt = fmt.encode('latin1')
        if isinstance(inp, str): inp = inp.encode('latin1')
        tests.append((bytes(fmt), bytes(inp), slots))

    curZ = ["", " ", "0", "7", "-7", "+7", "-", "+", "-+5", "+-5", "--5", "123", "-123x", "0x", "0X", "0x1f", "0X1F", "-0x1f", "+0x1F",
            "0xg", "0x-1", "00x1", "0b101", "0B1", "0b", "017", "018", "019", "08", "-017", "0777777777777777777777777", "1f", "ff", "FFx", "abcdefg",
            "  42", "\t\n-42 rest", " +0", "00", "000", "-0", "0-", "12345678901234567890123456789012345", "-0xfedcba9876543210fedcba98765432100",
            "9a", "a9", "x1", "0x0", "0x00x", "1 2", "1/2", ".5", "5.", "\x0b\x0c\r5", "\xa05", "5\xff", "0xAbCdEf", "+0x", "-0X", "0x+1", "0 x1", "1_000", "\xd9\xa1"]
    curQ = ["1/2", "-3/4", "3/-4", "3/+4", "-3/-4", "+3/+4", "/", "/2", "1/", "1//2", "1/ 2", "1 /2", "6/4", "0/1", "1/0", "0/0", "-0/5", "0x10/0x10", "0x10/010", "010/0x", "0x/1",
            "10/0b1", "1f/2e", "-1F/2E", "17/18", "017/018", "017/08", "12/34/56", "1/2x", "1/x", "1/-", "1/+", "1/-x", "-/2", "+/2", "123456789012345678901234567890/98765432109876543210",
            " 7/8", "7/8 ", "7", "-7", "0x7/", "00/00", "1/00", "9/0x9", "5/5/", "5/-0", "5/0x0"]
    convs = ["d", "i", "o", "x", "X"]
    # A: single directive, exhaustive over curated inputs
    for ty, cur in (("Z", curZ), ("Q", curQ + curZ[:40])):
        for cv in convs:
            for w in [None, 1, 2, 3, 4, 5, 6, 7]:
                for star in ([False, True] if w in (None, 2, 4) else [False]):
                    for inp in cur:
                        f = "%" + ("*" if star else "") + ("" if w is None else str(w)) + ty + cv + "%n"
                        add(f, inp, ("" if star else ty) + "d")
    # width relative to the field length
    for ty, cur in (("Z", curZ), ("Q", curQ)):
        for cv in convs:
            for inp in cur:
                L = len(inp.strip())
                for w in {max(1, L - 1), max(1, L), L + 1, 0}:
                    add("%%%d%s%s%%n%%Zd" % (w, ty, cv), inp, ty + "dZ")
    # libc fields
    curL = ["", " ", "5", "-5", "+5", "-", "+", "- 5", "x", "12x", " \t12", "007", "0x10", "99999999999", "-99999999999", "99999999999999999999999", "-99999999999999999999999",
            "2147483647", "2147483648", "-2147483648", "-2147483649", "9223372036854775807", "9223372036854775808", "-9223372036854775808", "-9223372036854775809", "+-1", "1-2", "  ", "\n"]
    for t, sl in (("ld", "l"), ("d", "d")):
        for w in [None, 1, 2, 3, 5, 12]:
            for star in [False, True]:
                for inp in curL:
                    add("%" + ("*" if star else "") + ("" if w is None else str(w)) + t + "%n", inp, ("" if star else sl) + "d")
    # literals, white space, %%, %n forms, EOF cases
    lits = [("a", ""), (",", ""), ("%%", ""), (" ", ""), ("\t", ""), (" \n ", ""), ("\xe9", ""), ("ab", ""), (":", "")]
    nforms = [("%n", "d"), ("%ln", "l"), ("%Zn", "Z"), ("%Qn", "Q"), ("%hn", "h"), ("%hhn", "c"), ("%*n", ""), ("%lln", "l"), ("%zn", "l"), ("%tn", "l"), ("%jn", "l"), ("%Ln", "l"), ("%qn", "l")]
    for f, inp in [("a", "a"), ("a", "b"), ("a", ""), ("a%Zd", "a5"), ("a%Zd", "a"), ("a%Zd", "b5"), (" a", "  a"), (" a", " "), (" x%Zd", " "), ("%Zd a", "5"), ("%Zd a", "5 "),
                   ("%Zd a", "5 b"), ("%Zda", "5 a"), ("%%", "%"), ("%%", " %"), ("%%", "x"), ("%%", ""), ("%%%Zd", "%5"), ("%Zd%%", "5%"), ("%Zd%%", "5"), ("\xe9", "\xe9"), ("\xe9%Zd", "\xe95"),
                   ("%Zd\xe9%Zd", "1\xe92"), ("\x7f", "\x7f"), ("\x80", "\x80"), ("\xff", "\xff"), ("%Zd %Zd", "1"), ("%Zd %Zd", "1 "), ("%*Zd %Zd", "1 "), ("%*Zd%Zd", "1"), ("%*Zd", ""), ("%*Zd", "x"),
                   ("%Zd%Zd", "1-"), ("%Zd%Zd", "1 -"), ("%Zd%Zd%Zd", "1 2 x"), ("%Zd,%Zd", "1,2"), ("%Zd,%Zd", "1 ,2"), ("%Zd ,%Zd", "1 ,2"), ("%Zd , %Zd", "1,2"), ("%Zd,%Zd", "1,"), ("%Zd,%Zd", "1, "),
                   ("%d %Zd %ld", "1 2 3"), ("%d%Zd%ld", "1 2"), ("%d%Zd%ld", ""), ("%d %Zd", "x"), ("%Zd %d", "5 x"), ("%Zd %d", "5 "), ("%Zd %d", "5"), ("%*d %d", "5"), ("%*d %d", "5 "), ("%*d%Zd", "5"),
                   ("%lZd", "5"), ("%ZZd", "5"), ("%QZd", "5/2"), ("%ZQd", "5/2"), ("%hZd", "5"), ("%3Zd%3Zd", "1234567"), ("%2Zd%2Zd%2Zd", "12345"), ("%2Zi%2Zi", "0x12"), ("%1Zd%1Zd", "-5"), ("%1Zd", "-5"),
                   ("%2Zi", "0x1"), ("%2Zi%Zd", "0x1"), ("%3Zi", "-0x1"), ("%4Zi", "-0x1"), ("%2Qd", "1/2"), ("%2Qd%Zd", "1/2"), ("%3Qd", "1/2"), ("%02Zd", "123"), ("%0Zd", "123"), ("%00012Zd", "123456789012345"),
                   ("%'Zd", "12"), ("%aZd", "12"), ("%Z'd", "12"), ("%Zu", "12"), ("%Zu", "-12"), ("%Qu", "-1/2"), ("% Zd", "5"), ("%Zd%n %n", "5  "), ("%n", ""), ("%n%Zd", ""), ("%n %n", " "), (" %n", ""), ("%Zd%n", ""),
                   ("%Z", "5"), ("%", "5"), ("%5", "5"), ("%*", "5"), ("%Zd%", "5"), ("%Zd%Z", "5"), ("%y%Zd", "5"), ("%#Zd", "5"), ("%-Zd", "5"), ("%Z-d", "5"), ("%Zd", "5\x006"), ("%Zd\x00%Zd", "5 6")]:
        nz = f.count("%Z") + f.count("%l") + 3
        add(f, inp, None)
    for (nf, ns) in nforms:
        for pre, inp in [("", "abc"), ("a", "abc"), ("%Zd", "123"), ("%Zd ", "123   "), (" %Zd", "   9"), ("%*Zd", "77"), ("%Zd", ""), ("%Zd", "x"), ("a", "b")]:
            add(pre + nf, inp, None)
    add("%Zd" + "%n" , " " * 130 + "5", None); add("%Zd%hhn", " " * 130 + "5", None); add("%Zd%hhn", " " * 300 + "5", None); add("%Zd%hn", " " * 300 + "5", None)

    # B: random multi-directive formats
    def rnd_int_text(cv, valid=True):
        sign = R.choice(["", "", "", "-", "+"])
        if cv == "d": pre, ds = "", "0123456789"
        elif cv == "o": pre, ds = "", "01234567"
        elif cv in "xX": pre, ds = "", "0123456789abcdefABCDEF"
        else:
            pre = R.choice(["", "", "0", "0x", "0X", "0b"])
            ds = {"": "0123456789", "0": "01234567", "0x": "0123456789abcdefABCDEF", "0X": "0123456789abcdefABCDEF", "0b": "01"}[pre]
        n = R.choice([1, 1, 2, 3, 5, 9, 17, 20, 40])
        body = "".join(R.choice(ds) for _ in range(n))
        if pre == "" and cv == "i" and body[0] == "0": body = "1" + body
        return sign + pre + body
    def perturb(s):
        k = R.randrange(12)
        if k == 0 and s: return s[:R.randrange(len(s))]
        if k == 1: return s + R.choice("gx/.-+ 89")
        if k == 2 and s: i = R.randrange(len(s)); return s[:i] + R.choice("gx/-+ 8") + s[i:]
        if k == 3: return ""
        return s
    def rnd_test():
        nd = R.choice([1, 2, 2, 3, 3, 4, 5])
        fmt = ""; inp = ""; slots = ""
        for i in range(nd):
            kind = R.choice(["Z", "Z", "Z", "Q", "Q", "ld", "d", "n", "lit", "ws", "pct"])
            ws_in = R.choice(["", "", " ", "  ", "\t\n "])
            if kind in ("Z", "Q"):
                cv = R.choice(convs); star = R.random() < 0.15
                t = rnd_int_text(cv)
                if kind == "Q" and R.random() < 0.8: t += "/" + rnd_int_text(cv)
                t = perturb(t)
                w = R.choice([None, None, None, 1, 2, 3, len(t) - 1, len(t), len(t) + 1, 10])
                if w is not None and w <= 0: w = None
                fmt += "%" + ("*" if star else "") + ("" if w is None else str(w)) + kind + cv
                if not star: slots += kind
                inp += ws_in + t
            elif kind in ("ld", "d"):
                star = R.random() < 0.15
                t = perturb(R.choice(["", "-", "+"]) + str(R.randrange(10 ** R.choice([1, 3, 9, 12]))))
                w = R.choice([None, None, 1, 2, len(t), len(t) + 1]);  w = None if (w is not None and w <= 0) else w
                fmt += "%" + ("*" if star else "") + ("" if w is None else str(w)) + kind
                if not star: slots += ("l" if kind == "ld" else "d")
                inp += ws_in + t
            elif kind == "n":
                nf, ns = R.choice(nforms); fmt += nf; slots += ns
            elif kind == "lit":
                c = R.choice(["a", ",", ":", "xy", "\xe9", "-"]); fmt += c; inp += perturb(c) if R.random() < 0.3 else c
            elif kind == "ws":
                fmt += R.choice([" ", "\t", "  "]); inp += ws_in
            else:
                fmt += "%%"; inp += R.choice(["%", "%", " %", "x"])
            if R.random() < 0.3: fmt += " "
            if R.random() < 0.3: fmt += R.choice(["%n", "%ln", "%Zn"]); slots += {"%n": "d", "%ln": "l", "%Zn": "Z"}[fmt[-3:] if fmt.endswith("%ln") or fmt.endswith("%Zn") else "%n"]
        if R.random() < 0.2: inp = inp[:R.randrange(len(inp) + 1)]
        add(fmt, inp, slots)
    for _ in range(nrandom): rnd_test()

    def slots_of(fmt):
        # the argument kinds a format needs (same reading as doscan.c), for the tests given without slots
        s = fmt.decode('latin1'); out = ""; i = 0
        while i < len(s):
            if s[i] != "%": i += 1; continue
            i += 1; ty = ""; star = False
            while i < len(s):
                c = s[i]; i += 1
                if c == "%": break
                if c == "*": star = True; continue
                if c in "FjLqQtzZ": ty = c; continue
                if c == "h": ty = "H" if ty == "h" else "h"; continue
                if c == "l": ty = "L" if ty == "l" else "l"; continue
                if c.isdigit() or c in "a'": continue
                if c in "dioxXun":
                    if not star:
                        out += {"Z": "Z", "Q": "Q", "": "d", "h": "h", "H": "c"}.get(ty, "l")
                    break
                break
        return out
    tests = [(f, i, (sl if sl is not None else slots_of(f))) for (f, i, sl) in tests]
    tests = [t for t in tests if len(t[2]) <= 8]


    return tests
