#!/usr/bin/env python3
"""vlib — shared machinery of the checks: build /repo's current tree, build/re-check the
Coq development, run case files through the implementation driver and the extracted
model, diff, search, write evidence and replay files."""
import os, sys, json, time, hashlib, subprocess, tempfile, shutil, fcntl, re, random, glob

ROOT = os.path.dirname(os.path.dirname(os.path.abspath(__file__)))
REPO = os.environ.get('VERIF_REPO', '/repo')
CACHE = os.path.join(ROOT, '.cache')
COQ = os.path.join(ROOT, 'coq')
NCPU = min(16, os.cpu_count() or 4)
FORBIDDEN = r'\b(Admitted|admit|Axiom|Axioms|Parameter|Parameters|Conjecture|Admit Obligations|bypass_check)\b|Unset Guard Checking|Unset Positivity Checking|Unset Universe Checking|-type-in-type|impredicative-set'


def sh(cmd, cwd=None, timeout=None, env=None, check=True, input=None):
    r = subprocess.run(cmd, shell=isinstance(cmd, str), cwd=cwd, timeout=timeout, env=env,
                       stdout=subprocess.PIPE, stderr=subprocess.STDOUT, input=input)
    out = r.stdout.decode('utf-8', 'replace')
    if check and r.returncode != 0:
        raise RuntimeError("command failed (%d): %s\n%s" % (r.returncode, cmd, out[-4000:]))
    return r.returncode, out


class Lock:
    def __init__(self, name):
        os.makedirs(CACHE, exist_ok=True)
        self.path = os.path.join(CACHE, name + '.lock')
    def __enter__(self):
        self.fh = open(self.path, 'w')
        fcntl.flock(self.fh, fcntl.LOCK_EX)
        return self
    def __exit__(self, *a):
        fcntl.flock(self.fh, fcntl.LOCK_UN)
        self.fh.close()


# ----------------------------------------------------------------------------- tree hash
SRC_EXT = ('.c', '.h', '.in', '.asm', '.as', '.am', '.ac', '.m4', '.cc', '.inc', '.S', '.s', '.y', '.l')

def tree_hash(extra=()):
    """Hash of /repo's working-tree sources (content, not mtime) plus harness sources."""
    h = hashlib.sha256()
    ok = False
    if os.path.isdir(os.path.join(REPO, '.git')):
        try:
            rc, head = sh(['git', '-C', REPO, 'rev-parse', 'HEAD'])
            rc, diff = sh(['git', '-C', REPO, 'diff', 'HEAD', '--binary'])
            rc, untracked = sh(['git', '-C', REPO, 'ls-files', '--others', '--exclude-standard'])
            h.update(head.encode()); h.update(diff.encode())
            for f in sorted(untracked.split('\n')):
                p = os.path.join(REPO, f)
                if f and os.path.isfile(p):
                    h.update(f.encode()); h.update(open(p, 'rb').read())
            ok = True
        except Exception:
            ok = False
    if not ok:
        for dp, dn, fn in os.walk(REPO):
            dn[:] = sorted(d for d in dn if d not in ('.git', '.libs', '.deps', 'autom4te.cache'))
            for f in sorted(fn):
                if f.endswith(SRC_EXT):
                    p = os.path.join(dp, f)
                    if os.path.islink(p) and not os.path.exists(p):
                        continue
                    h.update(p.encode()); h.update(open(p, 'rb').read())
    for f in sorted(glob.glob(os.path.join(ROOT, 'harness', '*.[ch]'))) + sorted(glob.glob(os.path.join(ROOT, 'translator', '*.py'))) + list(extra):
        h.update(f.encode()); h.update(open(f, 'rb').read())
    return h.hexdigest()[:20]


def scratch_dir(prefix):
    base = '/var/tmp' if os.access('/var/tmp', os.W_OK) else '/tmp'
    return tempfile.mkdtemp(prefix=prefix, dir=base)


LIB_SUBDIRS = "mpn fft mpz mpq mpf printf scanf"

def copy_repo(dst, with_objects=True):
    ex = ['--exclude', '.git', '--exclude', '/tests', '--exclude', '/doc', '--exclude', '/tune',
          '--exclude', '/build.vc*', '--exclude', '/mpir.net', '--exclude', '/devel', '--exclude', 'autom4te.cache']
    if not with_objects:
        ex += ['--exclude', '*.o', '--exclude', '*.lo', '--exclude', '*.la', '--exclude', '.libs', '--exclude', '.deps']
    sh(['rsync', '-a'] + ex + [REPO + '/', dst + '/'])


def finish_impl(d, scratch):
    """copy the built library and headers out of a build tree and link the implementation driver against them."""
    lib = os.path.join(scratch, '.libs', 'libmpir.a')
    shutil.copy(lib, os.path.join(d, 'libmpir.a'))
    for f in glob.glob(os.path.join(scratch, '*.h')):
        shutil.copy(f, os.path.join(d, 'include'))   # follows symlinks (gmp-mparam.h)
    os.makedirs(os.path.join(d, 'gensrc'), exist_ok=True)
    for f in ('mpn/mp_bases.c', 'mpn/fib_table.c', 'mpn/perfsqr.h', 'mpn/jacobitab.h', 'fac_ui.h', 'fib_table.h',
              'mp_bases.h', 'trialdivtab.h'):
        p = os.path.join(scratch, f)
        if os.path.exists(p):
            shutil.copy(p, os.path.join(d, 'gensrc', os.path.basename(f)))
    srcs = sorted(glob.glob(os.path.join(ROOT, 'harness', 'drv.c')) + glob.glob(os.path.join(ROOT, 'harness', 'ops_*.c')))
    sys.path.insert(0, os.path.join(ROOT, 'translator'))
    import gen_protos
    gen_protos.main(os.path.join(d, 'alias_table.c'))
    srcs.append(os.path.join(d, 'alias_table.c'))
    wraps = []
    for src in srcs:
        txt = open(src).read()
        wraps += re.findall(r'\bWRAPV?\w*\((\w+)', txt) + re.findall(r'\b__wrap_(\w+)\s*\(', txt)
    wl = ['-Wl,--wrap=' + w for w in sorted(set(wraps)) if w.startswith('__')]
    sh(['gcc', '-O1', '-g', '-w', '-I' + os.path.join(d, 'include'), '-I' + os.path.join(ROOT, 'harness')] + srcs +
       [os.path.join(d, 'libmpir.a'), '-lm', '-lpthread', '-no-pie'] + wl + ['-o', os.path.join(d, 'drv')], timeout=600)   # -no-pie: the fat build's entry stubs are not position independent


def build_impl(log=None):
    """Build libmpir.a and the implementation driver from /repo's current working tree.
    Returns the cache directory holding drv, libmpir.a and include/."""
    key = tree_hash()
    d = os.path.join(CACHE, 'impl-' + key)
    if os.path.exists(os.path.join(d, 'ok')):
        return d
    with Lock('impl'):
        if os.path.exists(os.path.join(d, 'ok')):
            return d
        t0 = time.time()
        for old in glob.glob(os.path.join(CACHE, 'impl-*')):
            shutil.rmtree(old, ignore_errors=True)
        os.makedirs(os.path.join(d, 'include'))
        scratch = scratch_dir('mpir-verif-build-')
        try:
            copy_repo(scratch)
            have_cfg = os.path.exists(os.path.join(scratch, 'config.status')) and os.path.exists(os.path.join(scratch, 'Makefile'))
            def mt(f):
                try: return os.path.getmtime(os.path.join(scratch, f))
                except OSError: return 0
            # /repo's in-tree build has no dependency tracking: an edit to anything that is not a
            # plain .c/.asm/.as translation unit (headers, included .c/.h fragments, tables, configure
            # inputs) must rebuild every object; configure inputs newer than config.status re-run configure.
            ref = mt('.libs/libmpir.a')
            cfg_inputs = ['configure', 'configure.ac', 'acinclude.m4', 'config.guess', 'config.sub', 'configfsf.guess', 'configfsf.sub',
                          'config.in', 'gmp-h.in', 'Makefile.in', 'mpn/Makefile.in', 'mpz/Makefile.in']
            stale_cfg = (not have_cfg) or any(mt(f) > mt('config.status') for f in cfg_inputs)
            full = stale_cfg or ref == 0
            if not full:
                for dp, dn, fn in os.walk(scratch):
                    dn[:] = [x for x in dn if x not in ('.libs', '.deps', 'tests', 'doc', 'tune', 'autom4te.cache')]
                    for f in fn:
                        if f.endswith(('.h', '.in', '.m4', '.inc', '.am')) or (f.endswith('.c') and not os.path.exists(os.path.join(dp, f[:-2] + '.lo')) and os.path.basename(dp) not in ('generic', 'x86_64')):
                            fp = os.path.join(dp, f)
                            if not os.path.islink(fp) and os.path.getmtime(fp) > ref and f not in ('config.h', 'mpir.h', 'gmp.h', 'mp_bases.h', 'fac_ui.h', 'fib_table.h', 'trialdivtab.h'):
                                full = True
                                break
                    if full:
                        break
            if full:
                sh("find . \\( -name '*.o' -o -name '*.lo' -o -name '*.la' \\) -delete", cwd=scratch)
            if stale_cfg:
                sh('./configure CFLAGS=-Wno-error', cwd=scratch, timeout=900)
            rc, out = sh('make -j%d SUBDIRS="%s"' % (NCPU, LIB_SUBDIRS), cwd=scratch, timeout=1800, check=False)
            if rc != 0:
                # stale or inconsistent objects: retry from a clean configure
                shutil.rmtree(scratch, ignore_errors=True)
                scratch = scratch_dir('mpir-verif-build-')
                copy_repo(scratch, with_objects=False)
                for f in ('config.status', 'config.h', 'Makefile', 'libtool', 'mpir.h'):
                    try: os.unlink(os.path.join(scratch, f))
                    except OSError: pass
                sh('./configure CFLAGS=-Wno-error', cwd=scratch, timeout=900)
                rc, out = sh('make -j%d SUBDIRS="%s"' % (NCPU, LIB_SUBDIRS), cwd=scratch, timeout=1800, check=False)
                if rc != 0:
                    raise RuntimeError("BUILD-FAILED: /repo's working tree does not build:\n" + out[-3000:])
            finish_impl(d, scratch)
        finally:
            shutil.rmtree(scratch, ignore_errors=True)
        with open(os.path.join(d, 'ok'), 'w') as fh:
            fh.write('%.1f\n' % (time.time() - t0))
        return d


# ----------------------------------------------------------------------------- Coq side
def coq_makefile():
    sh([sys.executable, os.path.join(ROOT, 'lib', 'gencoqproject.py')])
    if not os.path.exists(os.path.join(COQ, 'Makefile')) or \
       os.path.getmtime(os.path.join(COQ, 'Makefile')) < os.path.getmtime(os.path.join(COQ, '_CoqProject')):
        sh('coq_makefile -f _CoqProject -o Makefile', cwd=COQ)


def forbidden_scan():
    bad = []
    for sub in ('theories', 'props', 'gen', 'extract'):
        for f in glob.glob(os.path.join(COQ, sub, '*.v')):
            txt = open(f).read()
            txt = re.sub(r'\(\*.*?\*\)', '', txt, flags=re.S)
            for m in re.finditer(FORBIDDEN, txt):
                bad.append('%s: %s' % (os.path.relpath(f, ROOT), m.group(0)))
    return bad


def regenerate_all():
    """Tie A: regenerate coq/gen/*.v from /repo's current sources (files are rewritten only when they change)."""
    tdir = os.path.join(ROOT, 'translator')
    if tdir not in sys.path:
        sys.path.insert(0, tdir)
    import importlib
    res = {}
    for name in ('gen_tables', 'gen_protos', 'gen_consts', 'gen_rand', 'gen_globals', 'gen_cpuid'):
        if os.path.exists(os.path.join(tdir, name + '.py')):
            m = importlib.import_module(name)
            res[name] = m.main()
    return res


def build_model(targets=None):
    """Build the Coq theories (all, or the given .vo targets), extraction and the OCaml driver."""
    regenerate_all()
    with Lock('coq'):
        coq_makefile()
        tgt = ' '.join(targets) if targets else ''
        rc, out = sh('timeout 3000 make -k -j%d COQC="timeout 900 coqc" %s' % (NCPU, tgt), cwd=COQ, check=False)
        mdrv = os.path.join(COQ, 'extract', 'out', 'mdrv')
        need = not os.path.exists(mdrv)
        if not need:
            mt = os.path.getmtime(mdrv)
            for f in glob.glob(os.path.join(COQ, 'theories', '*Defs.v')) + glob.glob(os.path.join(COQ, 'theories', 'Api*.v')) + \
                     [os.path.join(COQ, 'extract', 'driver.ml'), os.path.join(COQ, 'theories', 'Word.v'), os.path.join(COQ, 'theories', 'Limbs.v')]:
                if os.path.getmtime(f) > mt:
                    need = True
        if need:
            apis = ' '.join('theories/' + os.path.basename(f)[:-2] + '.vo' for f in sorted(glob.glob(os.path.join(COQ, 'theories', 'Api*.v'))))
            sh('timeout 3000 make -j%d COQC="timeout 900 coqc" %s' % (NCPU, apis), cwd=COQ)
            sh([sys.executable, os.path.join(ROOT, 'lib', 'genextract.py')])
            o = os.path.join(COQ, 'extract', 'out')
            sh('coqc -Q ../../theories Mpir -Q ../../gen MpirGen ../Extract.v', cwd=o, timeout=900)
            shutil.copy(os.path.join(COQ, 'extract', 'driver.ml'), o)
            sh('ocamlfind ocamlopt -O3 -w -a model.mli model.ml table.ml driver.ml -o mdrv', cwd=o, timeout=900)
        return rc, out


def check_props(pid):
    """(Re)compile props/Properties_<pid>.v after bringing its dependencies up to date.
    Returns dict(obligations=[{name,status,axioms}], log=str, ok=bool)."""
    pf = os.path.join(COQ, 'props', 'Properties_%s.v' % pid)
    src = open(pf).read()
    src_nc = re.sub(r'\(\*.*?\*\)', '', src, flags=re.S)
    names = re.findall(r'^(?:Theorem|Example)\s+(\w+)', src_nc, re.M)
    with Lock('coq'):
        coq_makefile()
        # dependencies first (only out-of-date files rebuild)
        rc0, out0 = sh('timeout 3000 make -k -j%d COQC="timeout 900 coqc" props/Properties_%s.vo' % (NCPU, pid), cwd=COQ, check=False)
        # then always re-run coqc on the property file itself to capture Print Assumptions
        rc, out = sh('timeout 1800 coqc -Q theories Mpir -Q gen MpirGen -Q props MpirProps props/Properties_%s.v' % pid, cwd=COQ, check=False)
    obl = []
    # Print Assumptions output blocks follow each theorem in order
    blocks = re.split(r'(?=Closed under the global context|Axioms:)', out)
    results = []
    for b in blocks[1:]:
        if b.startswith('Closed under'):
            results.append([])
        else:
            ax = re.findall(r'^(\S+)\s*:', b[len('Axioms:'):], re.M)
            results.append(ax)
    pa_names = re.findall(r'^Print Assumptions\s+(\w+)\.', src_nc, re.M)
    done = dict(zip(pa_names, results))
    failed_at = None
    if rc != 0:
        m = re.search(r'File "[^"]*", line (\d+)', out)
        failed_at = int(m.group(1)) if m else 0
    # map line numbers to theorem names to decide which ones were reached
    line_of = {}
    for m in re.finditer(r'^(?:Theorem|Example)\s+(\w+)', src, re.M):
        line_of[m.group(1)] = src.count('\n', 0, m.start()) + 1
    for n in names:
        if rc == 0 or (failed_at and line_of.get(n, 10**9) < failed_at and (n in done or n not in pa_names)):
            ax = done.get(n, [])
            obl.append({'name': n, 'status': 'proved', 'axioms': ax})
        else:
            obl.append({'name': n, 'status': 'failed', 'axioms': []})
    bad = forbidden_scan()
    return {'obligations': obl, 'log': (out0[-3000:] if rc0 != 0 else '') + out[-6000:], 'ok': rc == 0 and rc0 == 0 and not bad,
            'forbidden': bad}


# ----------------------------------------------------------------------------- running cases
def _big_stack():
    import resource
    try:
        resource.setrlimit(resource.RLIMIT_STACK, (resource.RLIM_INFINITY, resource.RLIM_INFINITY))
    except Exception:
        try:
            soft, hard = resource.getrlimit(resource.RLIMIT_STACK)
            resource.setrlimit(resource.RLIMIT_STACK, (hard, hard))
        except Exception:
            pass

def _run_chunk(cmd, text, timeout):
    try:
        r = subprocess.run(cmd, input=text.encode(), stdout=subprocess.PIPE, stderr=subprocess.PIPE, timeout=timeout, preexec_fn=_big_stack)
        return r.returncode, r.stdout.decode('utf-8', 'replace'), r.stderr.decode('utf-8', 'replace')
    except subprocess.TimeoutExpired as e:
        return -9, (e.stdout or b'').decode('utf-8', 'replace'), 'TIMEOUT'


def run_driver(cmd, cases, timeout=900, nproc=None, weights=None):
    """Run `cmd` over the case lines in parallel shards; returns list of output strings
    (one per case, without the leading line number; None if the driver died before it)."""
    from concurrent.futures import ThreadPoolExecutor
    n = len(cases)
    if n == 0:
        return []
    nproc = nproc or NCPU
    k = max(1, min(nproc, n))
    # balance shards by weight (length of the line is a good proxy for cost)
    order = sorted(range(n), key=lambda i: -(weights[i] if weights else len(cases[i])))
    shards = [[] for _ in range(k)]
    load = [0] * k
    for i in order:
        j = load.index(min(load))
        shards[j].append(i)
        load[j] += (weights[i] if weights else len(cases[i])) + 50
    for s in shards:
        s.sort()
    res = [None] * n
    crashes = []
    def work(s):
        text = '\n'.join(cases[i] for i in s) + '\n'
        return s, _run_chunk(cmd, text, timeout)
    with ThreadPoolExecutor(max_workers=k) as ex:
        for s, (rc, out, err) in ex.map(work, [s for s in shards if s]):
            lines = out.split('\n')
            for ln in lines:
                if not ln:
                    continue
                sp = ln.split(' ', 1)
                try:
                    idx = int(sp[0]) - 1
                except ValueError:
                    continue
                if 0 <= idx < len(s):
                    res[s[idx]] = sp[1].strip() if len(sp) > 1 else ''
            if rc != 0 and not any(res[i] and 'CRASH-SIGNAL' in res[i] for i in s):
                # killed without a report (timeout, SIGKILL): first case without output is where it died
                dead = next((i for i in s if res[i] is None), None)
                crashes.append((dead, rc, err[-500:]))
    return res, crashes


def run_robust(cmd, cases, timeout=900, died='DIED', _retry=True):
    """run_driver, then re-run (each in its own process) the cases that got no output because
    an earlier case in their shard killed the driver.  For the extracted model (died='MODEL-DIED') the shard time limit grows
    with the number of cases, and a case whose shard ran out of time is evaluated once more on its own with a one-hour limit."""
    if died == 'MODEL-DIED' and _retry and len(cases) > 1:
        res = run_robust(cmd, cases, timeout=max(timeout, 30 * len(cases) // NCPU + 900), died=died, _retry=False)
        late = [i for i, o in enumerate(res) if o.startswith(died) and 'TIMEOUT' in o]
        if late:
            again = run_robust(cmd, [cases[i] for i in late], timeout=3600, died=died, _retry=False)
            for i, o in zip(late, again):
                res[i] = o
        return res
    res, crashes = run_driver(cmd, cases, timeout=timeout)
    for dead, rc, err in crashes:
        if dead is not None and res[dead] is None:
            res[dead] = '%s rc=%d %s' % (died, rc, err.strip().replace('\n', ' | ')[:160])
    # every deliberate trap (division by zero ...) ends the driver process: go on until every case has run or a round
    # makes no progress
    last_missing = None
    for rnd in range(5000):
        missing = [i for i, r in enumerate(res) if r is None]
        if not missing or (last_missing is not None and len(missing) >= last_missing):
            break
        last_missing = len(missing)
        sub = [cases[i] for i in missing]
        r2, cr2 = run_driver(cmd, sub, timeout=timeout, nproc=min(len(sub), 4 * NCPU))
        for dead, rc, err in cr2:
            if dead is not None and r2[dead] is None:
                r2[dead] = '%s rc=%d %s' % (died, rc, err.strip().replace('\n', ' | ')[:160])
        for i, r in zip(missing, r2):
            res[i] = r
    return [r if r is not None else died + ' no-output' for r in res]


def timed_out(ctx, m):
    """a model evaluation that ran out of its (one hour) time limit is not a verdict: counted, never a violation"""
    if m.startswith('MODEL-DIED') and 'TIMEOUT' in m:
        ctx.extra_cov['model_time_limit_cases_not_explored'] = ctx.extra_cov.get('model_time_limit_cases_not_explored', 0) + 1
        return True
    return False

def impl_cmd(impl_dir):
    return [os.path.join(impl_dir, 'drv')]

def model_cmd():
    return [os.path.join(COQ, 'extract', 'out', 'mdrv')]


# ----------------------------------------------------------------------------- known findings
def load_known():
    p = os.path.join(ROOT, 'known_findings.json')
    if not os.path.exists(p):
        return []
    return json.load(open(p)).get('findings', [])


def match_known(pid, case_line, known):
    for k in known:
        if k.get('property') != pid or k.get('kind') != 'known':
            continue
        pat = k.get('match', {}).get('case_regex')
        if pat and re.search(pat, case_line):
            return k
    return None


# ----------------------------------------------------------------------------- evidence
def write_evidence(pid, tier, seed, coverage, wall, violations, assumptions):
    os.makedirs(os.path.join(ROOT, 'evidence'), exist_ok=True)
    ev = {'property_id': pid, 'tier': tier, 'seed': seed, 'level': 'proof', 'coverage': coverage,
          'assumptions': assumptions, 'wall_s': round(wall, 2), 'violations': violations}
    tmp = os.path.join(ROOT, 'evidence', pid + '.json.tmp')
    with open(tmp, 'w') as fh:
        json.dump(ev, fh, indent=1)
    os.replace(tmp, os.path.join(ROOT, 'evidence', pid + '.json'))


def write_replay(pid, payload):
    d = os.path.join(ROOT, 'replay')
    os.makedirs(d, exist_ok=True)
    n = 0
    while os.path.exists(os.path.join(d, '%s-%d.json' % (pid, n))):
        n += 1
    p = os.path.join(d, '%s-%d.json' % (pid, n))
    with open(p, 'w') as fh:
        json.dump(payload, fh, indent=1)
    return p
