#!/usr/bin/env python3
"""checker — the check protocol shared by all properties (DESIGN.md section 5):
regenerate -> prove -> build -> correspond -> verdict -> evidence."""
import os, sys, json, time, random, importlib, re, traceback
import vlib
from gen import hx

ROOT = vlib.ROOT


class Ctx:
    def __init__(self, pid, tier, seed):
        self.pid = pid; self.tier = tier; self.seed = seed
        self.t0 = time.time()
        self.violations = []       # list of dict(kind, case, impl, model, note)
        self.known_hits = []
        self.notes = []
        self.extra_cov = {}
        self.impl = None
        self.props = None
        self.samples = []
        self.tags = {}

    def rng(self, stream):
        return random.Random('%s/%s/%s' % (self.seed, self.pid, stream))

    def elapsed(self):
        return time.time() - self.t0


def diff_cases(ctx, cases, timeout=900, model=True, label='main'):
    """Run implementation and model on case lines; returns list of (index, impl_out, model_out) that differ."""
    lines = [c[0] if isinstance(c, tuple) else c for c in cases]
    impl_out = vlib.run_robust(getattr(ctx, 'impl_cmd', None) or vlib.impl_cmd(ctx.impl), lines, timeout=timeout, died='CRASH')
    # tokens starting with '#' are observations (regime tags), not results: collect and strip
    def clean(o):
        if o and '#' in o:
            toks = o.split(' ')
            for t in toks:
                if t.startswith('#'):
                    ctx.tags[t] = ctx.tags.get(t, 0) + 1
            return ' '.join(t for t in toks if not t.startswith('#'))
        return o
    impl_out = [clean(o) for o in impl_out]
    if getattr(ctx, 'canon', None):
        impl_out = [ctx.canon(o) for o in impl_out]
    if model:
        model_out = vlib.run_robust(vlib.model_cmd(), lines, timeout=timeout, died='MODEL-DIED')
        # a case the model cannot finish even alone within an hour is left out of the comparison and counted as not explored
        # (it is neither agreement nor violation)
        unexplored = [i for i, o in enumerate(model_out) if o.startswith('MODEL-DIED') and 'TIMEOUT' in o]
        if unexplored and len(lines) > 1:
            ctx.extra_cov['model_time_limit_cases_not_explored'] = ctx.extra_cov.get('model_time_limit_cases_not_explored', 0) + len(unexplored)
            for i in unexplored:
                model_out[i] = impl_out[i]
        for i, o in enumerate(model_out):
            if o.startswith('MODEL-DIED'):
                ctx.notes.append('model driver died on case %r' % (lines[i][:200],))
    else:
        model_out = [None] * len(lines)
    bad = []
    for i, ln in enumerate(lines):
        a, b = impl_out[i], model_out[i]
        if model:
            if a != b and not (getattr(ctx, 'matcher', None) and ctx.matcher(ln, a, b)):
                bad.append((i, a, b))
        elif 'CRASH' in a or any(t.isupper() and len(t) > 3 and not all(ch in '0123456789ABCDEF-' for ch in t) for t in a.split()):
            bad.append((i, a, b))
    return bad, impl_out, model_out


def shrink_case(ctx, line, mod):
    """Greedy shrink of the big numeric tokens of a failing case; keeps the disagreement."""
    def fails(l):
        bad, io, mo = diff_cases(ctx, [l], timeout=120)
        return bad[0] if bad else None
    cur = line
    first = fails(cur)
    if not first:
        return line, None
    last = first
    valid = getattr(mod, 'valid', lambda l: True)
    for rnd in range(3):
        toks = cur.split(' ')
        changed = False
        for i in range(1, len(toks)):
            t = toks[i]
            if t.startswith('x:') or len(t.lstrip('-')) <= 16:
                continue
            neg = t.startswith('-'); x = int(t.lstrip('-'), 16)
            nl = (x.bit_length() + 63) // 64
            cands = []
            for k in range(1, nl):
                cands.append(x & ((1 << (64 * k)) - 1))           # keep low k limbs
                cands.append((x >> (64 * k)) << (64 * k))         # clear low k limbs
            cands += [1 << (x.bit_length() - 1), (1 << x.bit_length()) - 1]
            for c in cands:
                if c == x or c == 0:
                    continue
                toks2 = list(toks); toks2[i] = ('-' if neg else '') + '%x' % c
                l2 = ' '.join(toks2)
                if not valid(l2):
                    continue
                f = fails(l2)
                if f:
                    toks = toks2; cur = l2; last = f; changed = True
                    break
            if ctx.elapsed() > 3000:
                break
        if not changed:
            break
    return cur, last


def run(pid, tier, seed, replay=None):
    sys.path.insert(0, os.path.join(ROOT, 'checks'))
    mod = importlib.import_module(pid.lower())
    ctx = Ctx(pid, tier, seed)
    ctx.canon = getattr(mod, 'canon_impl', None)
    ctx.matcher = getattr(mod, 'matcher', None)
    known = vlib.load_known()
    obligations = []
    props_ok = True
    try:
        # 1. regenerate (Tie A)
        if hasattr(mod, 'regenerate'):
            mod.regenerate(ctx)
        # 2. prove
        ctx.phase = {}
        t = time.time(); vlib.build_model(); ctx.phase['build_model_s'] = round(time.time() - t, 1)
        t = time.time(); ctx.props = vlib.check_props(pid); ctx.phase['check_props_s'] = round(time.time() - t, 1)
        obligations = ctx.props['obligations']
        props_ok = ctx.props['ok']
        # 3. build
        t = time.time(); ctx.impl = vlib.build_impl(); ctx.phase['build_impl_s'] = round(time.time() - t, 1)
    except RuntimeError as e:
        msg = str(e)
        print(msg[-3000:])
        print("CHECK-ERROR property=%s (infrastructure or build failure, no verdict)" % pid)
        return 2

    # 4. correspond
    allcases = []
    if replay:
        rp = json.load(open(replay))
        allcases = [(c, 'replay') for c in rp.get('cases', [])]
    else:
        cdir = os.path.join(ROOT, 'corpus', pid)
        if os.path.isdir(cdir):
            for f in sorted(os.listdir(cdir)):
                for ln in open(os.path.join(cdir, f)):
                    ln = ln.strip()
                    if ln and not ln.startswith('#'):
                        allcases.append((ln, 'corpus'))
        allcases += list(mod.cases(ctx, tier))
    lines = [c[0] for c in allcases]
    tags = [c[1] for c in allcases]
    t = time.time()
    bad, impl_out, model_out = diff_cases(ctx, allcases, timeout=getattr(mod, 'TIMEOUT', 900)) if lines else ([], [], [])
    ctx.phase['correspond_s'] = round(time.time() - t, 1)
    hist = {}
    for t in tags:
        hist[t] = hist.get(t, 0) + 1
    distinct = len(set(l for l, t in allcases if mod.nontrivial(l, t))) if hasattr(mod, 'nontrivial') else len(set(lines))
    # 4b. property-specific extra steps (own harnesses, traces, translators' cross-checks)
    if hasattr(mod, 'extra') and not replay:
        try:
            t = time.time(); mod.extra(ctx); ctx.phase['extra_s'] = round(time.time() - t, 1)
        except RuntimeError as e:
            print(str(e)[-3000:])
            print("CHECK-ERROR property=%s (extra step failed, no verdict)" % pid)
            return 2

    # 5. verdict
    reported = 0
    seen_ops = {}
    for (i, a, b) in bad:
        line = lines[i]
        op = line.split(' ', 1)[0]
        seen_ops[op] = seen_ops.get(op, 0) + 1
        if seen_ops[op] > 3:
            continue                       # at most three replays per operation
        k = vlib.match_known(pid, line, known)
        if k:
            ctx.known_hits.append((k, line))
            continue
        sl, sres = (line, None)
        if len(line) < 200000:
            try:
                sl, sres = shrink_case(ctx, line, mod)
            except Exception:
                sl, sres = line, None
        k = vlib.match_known(pid, sl, known)
        if k:
            ctx.known_hits.append((k, sl))
            continue
        payload = {'property': pid, 'kind': 'result-disagreement', 'cases': [sl], 'original_case': line if sl != line else None,
                   'implementation_output': sres[1] if sres else a, 'model_output': sres[2] if sres else b,
                   'theorems': [o['name'] for o in obligations],
                   'explanation': 'The model side is proved equal to the specification (props/Properties_%s.v); the implementation built from /repo disagrees on this input.' % pid,
                   'replay_cmd': 'cd /verif && bin/check %s --replay <this file>' % pid, 'seed': seed, 'tier': tier}
        p = vlib.write_replay(pid, payload)
        ctx.violations.append(payload)
        print("VIOLATION property=%s replay=%s" % (pid, p))
        reported += 1
    for v in getattr(ctx, 'extra_violations', []):
        k = vlib.match_known(pid, v.get('key', ''), known)
        if k:
            ctx.known_hits.append((k, v.get('key', '')))
            continue
        v2 = dict(v); v2['property'] = pid; v2['seed'] = seed; v2['tier'] = tier
        p = vlib.write_replay(pid, v2)
        ctx.violations.append(v2)
        tail = ' no-failing-input-found' if v.get('no_input') else ''
        print("VIOLATION property=%s replay=%s%s" % (pid, p, tail))
        reported += 1
    failed = [o for o in obligations if o['status'] != 'proved']
    if (failed or not props_ok) and not replay:
        # tie broken: directed search for a failing input
        found = None
        if hasattr(mod, 'search'):
            try:
                found = mod.search(ctx, failed)
            except Exception as e:
                ctx.notes.append('search raised %r' % (e,))
        if found:
            payload = dict(found); payload.update({'property': pid, 'kind': 'obligation-failed-with-input',
                           'failed_obligations': [o['name'] for o in failed], 'seed': seed, 'tier': tier})
            p = vlib.write_replay(pid, payload)
            ctx.violations.append(payload)
            print("VIOLATION property=%s replay=%s" % (pid, p))
        elif reported == 0:
            payload = {'property': pid, 'kind': 'obligation-failed', 'failed_obligations': [o['name'] for o in failed],
                       'forbidden_vernacular': ctx.props.get('forbidden'), 'coq_log_tail': ctx.props['log'][-3000:],
                       'cases_tried': len(lines), 'note': 'the theorem(s) named no longer check against the regenerated model; no concrete failing input was found', 'seed': seed, 'tier': tier}
            p = vlib.write_replay(pid, payload)
            ctx.violations.append(payload)
            print("VIOLATION property=%s replay=%s no-failing-input-found" % (pid, p))
    done_known = set()
    for k, line in ctx.known_hits:
        key = k.get('what')
        if key in done_known:
            continue
        done_known.add(key)
        print("KNOWN-FINDING: property=%s %s" % (pid, k.get('what')))

    # 6. evidence
    axioms = sorted(set(a for o in obligations for a in o['axioms']))
    tb = ['Coq 8.16.1 kernel (coqc); vm_compute used only for finite table theorems; no native_compute',
          'axioms reported by Print Assumptions over all theorems of Properties_%s.v: %s' % (pid, ', '.join(axioms) if axioms else 'none (Closed under the global context)'),
          'extraction: ExtrOcamlBasic only (bool, option, unit, list, prod, sumbool, sumor), no Extract Constant; OCaml 4.13.1 ocamlopt; coq/extract/driver.ml',
          'correspondence harness: harness/*.c, lib/*.py, gcc, the recording allocator']
    tb += getattr(mod, 'TRUSTED', [])
    sample_idx = list(range(0, len(lines), max(1, len(lines) // 5)))[:6]
    samples = [{'case': lines[i][:400], 'tag': tags[i], 'implementation': (impl_out[i] or '')[:200], 'model': (model_out[i] or '')[:200]} for i in sample_idx]
    samples += ctx.samples[:6]
    samples += [{'obligation': o['name'], 'status': o['status']} for o in obligations[:3]]
    cov = {'obligations': len(obligations), 'discharged': len([o for o in obligations if o['status'] == 'proved']),
           'checker_cmd': 'cd /verif/coq && make -j16 props/Properties_%s.vo && coqc -Q theories Mpir -Q gen MpirGen -Q props MpirProps props/Properties_%s.v' % (pid, pid),
           'trusted_base': tb,
           'obligation_list': [{'name': o['name'], 'status': o['status'], 'axioms': o['axioms']} for o in obligations],
           'evaluations': len(lines) + int(ctx.extra_cov.get('extra_evaluations', 0)), 'distinct_nontrivial': distinct + int(ctx.extra_cov.get('extra_distinct', 0)),
           'rule': getattr(mod, 'RULE', 'generated correspondence cases; distinct case lines'),
           'case_histogram': hist, 'observed_tags': dict(sorted(ctx.tags.items(), key=lambda kv: -kv[1])[:60]), 'samples': samples,
           'traces_validated_against_impl': len(lines) - len(bad),
           'disagreements': len(bad), 'known_findings_hit': len(ctx.known_hits),
           'explanation': getattr(mod, 'EXPLANATION', ''), 'notes': ctx.notes[:20]}
    cov.update(ctx.extra_cov)
    cov["phase_seconds"] = getattr(ctx, "phase", {})
    vlib.write_evidence(pid, tier, seed, cov, ctx.elapsed(), len(ctx.violations), getattr(mod, 'ASSUMPTIONS', []))
    print("%s tier=%s seed=%d obligations=%d/%d cases=%d disagreements=%d known=%d violations=%d wall=%.1fs" % (
        pid, tier, seed, cov['discharged'], cov['obligations'], len(lines), len(bad), len(ctx.known_hits), len(ctx.violations), ctx.elapsed()))
    return 1 if ctx.violations else 0


def main():
    import argparse
    ap = argparse.ArgumentParser()
    ap.add_argument('pid')
    ap.add_argument('--tier', default=os.environ.get('VERIF_TIER', 'quick'))
    ap.add_argument('--replay', default=None)
    a = ap.parse_args()
    seed = int(os.environ.get('VERIF_SEED', '1') or '1')
    tier = a.tier if a.tier in ('quick', 'thorough') else 'quick'
    rc = run(a.pid.upper(), tier, seed, a.replay)
    sys.exit(rc)


if __name__ == '__main__':
    main()
