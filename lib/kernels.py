"""kernels.py — C14: assemble EVERY assembly kernel under /repo/mpn/x86_64/** (and compile the portable C
version of the same routines) into one driver, each under its own symbol prefix, so that every kernel can
be called on the same operands as the extracted Coq model of the routine.

build_kernels() -> (cache dir with kdrv and kernels.json).  Cached by content hash."""
import os, sys, re, json, glob, shutil, hashlib, subprocess, time
import vlib
from vlib import ROOT, REPO, CACHE, sh, Lock, scratch_dir

# CPU features a directory's kernels need (beyond baseline x86-64 / SSE2)
DIR_NEEDS = {
    'haswell': ['bmi2', 'avx2'], 'haswell/avx': ['avx2'], 'haswell/broadwell': ['adx', 'bmi2'],
    'skylake': ['adx', 'bmi2', 'avx2'], 'skylake/avx': ['avx2', 'adx', 'bmi2'],
    'sandybridge': ['avx'], 'sandybridge/ivybridge': ['avx'], 'bulldozer': [], 'nehalem': ['sse4_2', 'popcnt'], 'nehalem/westmere': ['sse4_2', 'popcnt'],
    'core2/penryn': ['sse4_1'], 'k8/k10': ['popcnt', 'abm'], 'k8/k10/k102': ['popcnt', 'abm'], 'bobcat': ['popcnt'],
}
# C routines that only exist as static fallbacks inside another file
STATIC_IN = {'karaadd': 'mul_n.c', 'karasub': 'mul_n.c'}

def host_flags():
    try:
        for ln in open('/proc/cpuinfo'):
            if ln.startswith('flags'):
                return set(ln.split(':', 1)[1].split())
    except OSError:
        pass
    return set()

def kernel_files():
    base = os.path.join(REPO, 'mpn', 'x86_64')
    out = []
    for dp, dn, fn in os.walk(base):
        dn.sort()
        rel = os.path.relpath(dp, base)
        if rel.startswith('fat'):
            continue
        for f in sorted(fn):
            if f.endswith(('.as', '.asm')):
                out.append((('' if rel == '.' else rel), f))
    return out

def khash():
    h = hashlib.sha256()
    files = [os.path.join(REPO, 'mpn', 'x86_64', d, f) for d, f in kernel_files()]
    files += sorted(glob.glob(os.path.join(REPO, 'mpn', 'generic', '*.c'))) + sorted(glob.glob(os.path.join(REPO, 'mpn', '*.m4')))
    files += [os.path.join(REPO, f) for f in ('gmp-impl.h', 'longlong.h', 'gmp-h.in', 'yasm_mac.inc.nofat', 'mpn/x86_64/x86_64-defs.m4', 'mpn/asm-defs.m4')]
    files += [os.path.join(ROOT, 'harness', f) for f in ('kern_ops.c', 'drv.c', 'common.h')] + [os.path.join(ROOT, 'lib', 'kernels.py')]
    for f in files:
        if os.path.exists(f):
            h.update(f.encode()); h.update(open(f, 'rb').read())
    return h.hexdigest()[:20]

def defined_globals(obj):
    rc, out = sh(['nm', '-g', '--defined-only', obj], check=False)
    return [ln.split()[-1] for ln in out.splitlines() if len(ln.split()) >= 3]

def undefined(obj):
    rc, out = sh(['nm', '-u', obj], check=False)
    return [ln.split()[-1] for ln in out.splitlines() if ln.strip()]

def prefix_object(obj, pfx):
    """prefix every symbol, then give undefined (external) ones their real name back."""
    und = undefined(obj)
    sh(['objcopy', '--prefix-symbols=' + pfx, obj])
    if und:
        args = []
        for u in und:
            args += ['--redefine-sym', '%s%s=%s' % (pfx, u, u)]
        sh(['objcopy'] + args + [obj])

def build_kernels(impl):
    key = khash() + '-' + os.path.basename(impl)[-8:]
    d = os.path.join(CACHE, 'kern-' + key)
    if os.path.exists(os.path.join(d, 'ok')):
        return d
    with Lock('kern'):
        if os.path.exists(os.path.join(d, 'ok')):
            return d
        for old in glob.glob(os.path.join(CACHE, 'kern-*')):
            shutil.rmtree(old, ignore_errors=True)
        os.makedirs(d)
        scratch = scratch_dir('mpir-verif-kern-')
        try:
            sh('rsync -a --exclude .git --exclude tests --exclude doc --exclude "*.o" --exclude "*.lo" --exclude .libs %s/ %s/' % (REPO, scratch))
            if not os.path.exists(os.path.join(scratch, 'config.m4')):
                sh('./configure CFLAGS=-Wno-error', cwd=scratch, timeout=900)
            flags = host_flags()
            kerns = []; skipped = []; objs = []
            idx = 0
            inc = os.path.join(impl, 'include')
            # portable C versions: index 0 of every routine
            routines = sorted(set(f.rsplit('.', 1)[0] for dd, f in kernel_files()))
            for r in routines:
                src = os.path.join(scratch, 'mpn', 'generic', r + '.c')
                o = os.path.join(d, 'gen_%s.o' % r)
                if os.path.exists(src):
                    rc, out = sh(['gcc', '-O2', '-w', '-c', '-DHAVE_CONFIG_H', '-D__GMP_WITHIN_GMP', '-DOPERATION_' + r, '-I' + scratch, '-I' + os.path.join(scratch, 'mpn'), src, '-o', o], check=False)
                    if rc != 0:
                        skipped.append({'file': 'mpn/generic/%s.c' % r, 'why': 'does not compile stand-alone: ' + out[-200:]}); continue
                    sym = '__gmpn_' + r
                    if sym not in defined_globals(o):
                        skipped.append({'file': 'mpn/generic/%s.c' % r, 'why': 'defines no %s' % sym}); continue
                    prefix_object(o, 'g0_')
                    kerns.append({'idx': len(kerns), 'routine': r, 'dir': 'generic-C', 'file': 'mpn/generic/%s.c' % r, 'sym': 'g0_' + sym}); objs.append(o)
                elif r in STATIC_IN:
                    w = os.path.join(d, 'genw_%s.c' % r)
                    open(w, 'w').write('#include "%s"\nvoid genw_%s(mp_ptr a, mp_ptr b, mp_size_t n) { mpn_%s(a, b, n); }\n' % (os.path.join(scratch, 'mpn', 'generic', STATIC_IN[r]), r, r))
                    rc, out = sh(['gcc', '-O2', '-w', '-c', '-DHAVE_CONFIG_H', '-D__GMP_WITHIN_GMP', '-I' + scratch, '-I' + os.path.join(scratch, 'mpn'), w, '-o', o], check=False)
                    if rc != 0 or ('genw_' + r) not in defined_globals(o):
                        skipped.append({'file': 'mpn/generic/%s (static %s)' % (STATIC_IN[r], r), 'why': 'no portable fallback in this configuration: ' + out[-200:]}); continue
                    sh(['objcopy', '-G', 'genw_' + r, o])
                    kerns.append({'idx': len(kerns), 'routine': r, 'dir': 'generic-C', 'file': 'mpn/generic/%s (static fallback)' % STATIC_IN[r], 'sym': 'genw_' + r}); objs.append(o)
            for dd, f in kernel_files():
                r = f.rsplit('.', 1)[0]
                need = DIR_NEEDS.get(dd, [])
                miss = [x for x in need if x not in flags]
                rel = os.path.join('mpn', 'x86_64', dd, f)
                if miss:
                    skipped.append({'file': rel, 'why': 'host CPU lacks ' + ','.join(miss)}); continue
                k = len(kerns)
                o = os.path.join(d, 'k%d_%s.o' % (k, r))
                if f.endswith('.as'):
                    rc, out = sh(['yasm', '-I', scratch, '-f', 'elf64', '-o', o, os.path.join(scratch, rel)], check=False)
                else:
                    s = os.path.join(d, 'k%d.s' % k)
                    rc, out = sh('m4 -DOPERATION_%s %s > %s && gcc -c %s -o %s' % (r, os.path.join('x86_64', dd, f), s, s, o), cwd=os.path.join(scratch, 'mpn'), check=False)
                    try: os.unlink(s)
                    except OSError: pass
                if rc != 0:
                    skipped.append({'file': rel, 'why': 'does not assemble: ' + out[-200:]}); continue
                sym = '__gmpn_' + r
                if sym not in defined_globals(o) and ('mpn_' + r) in defined_globals(o):
                    sym = 'mpn_' + r               # a few files lack the name-mangling define
                if sym not in defined_globals(o):
                    skipped.append({'file': rel, 'why': 'defines no %s (%s)' % (sym, ','.join(defined_globals(o))[:80])}); continue
                pfx = 'k%d_' % k
                prefix_object(o, pfx)
                kerns.append({'idx': k, 'routine': r, 'dir': dd or '.', 'file': rel, 'sym': pfx + sym}); objs.append(o)
            # table and driver
            T = ['/* generated by lib/kernels.py */', '#include <stddef.h>', 'typedef struct { const char *routine; const char *dir; int idx; void *fn; } kern_t;']
            for k in kerns:
                T.append('extern char %s[];' % k['sym'])
            T.append('const kern_t kern_table[] = {')
            for k in kerns:
                T.append('  {"%s", "%s", %d, (void *)%s},' % (k['routine'], k['dir'], k['idx'], k['sym']))
            T.append('  {NULL, NULL, -1, NULL} };')
            open(os.path.join(d, 'kern_table.c'), 'w').write('\n'.join(T) + '\n')
            sh(['gcc', '-O1', '-g', '-w', '-DKERN_ONLY', '-I' + inc, '-I' + os.path.join(ROOT, 'harness'), os.path.join(ROOT, 'harness', 'drv.c'), os.path.join(ROOT, 'harness', 'kern_ops.c'),
                os.path.join(d, 'kern_table.c')] + objs + [os.path.join(impl, 'libmpir.a'), '-lm', '-o', os.path.join(d, 'kdrv')], timeout=600)
            json.dump({'kernels': kerns, 'skipped': skipped, 'host_flags': sorted(f for f in flags if f in ('avx', 'avx2', 'bmi2', 'adx', 'popcnt', 'abm', 'sse4_1', 'sse4_2'))},
                      open(os.path.join(d, 'kernels.json'), 'w'), indent=1)
            for o in objs:
                try: os.unlink(o)
                except OSError: pass
        finally:
            shutil.rmtree(scratch, ignore_errors=True)
        open(os.path.join(d, 'ok'), 'w').write('ok\n')
        return d

if __name__ == '__main__':
    impl = vlib.build_impl()
    d = build_kernels(impl)
    j = json.load(open(os.path.join(d, 'kernels.json')))
    print(d, len(j['kernels']), 'kernels', len(j['skipped']), 'skipped')
    for s in j['skipped']: print('  skipped', s)
