#!/usr/bin/env python3
"""Write coq/_CoqProject from the .v files present (theories, gen, props); coqdep orders them."""
import os, glob
root = os.path.dirname(os.path.dirname(os.path.abspath(__file__)))
coq = os.path.join(root, 'coq')
lines = ['-Q theories Mpir', '-Q gen MpirGen', '-Q props MpirProps']
for sub in ('theories', 'gen', 'props'):
    for f in sorted(glob.glob(os.path.join(coq, sub, '*.v'))):
        lines.append('%s/%s' % (sub, os.path.basename(f)))
txt = '\n'.join(lines) + '\n'
p = os.path.join(coq, '_CoqProject')
if not os.path.exists(p) or open(p).read() != txt:
    open(p, 'w').write(txt)
    print('gencoqproject: updated (%d files)' % (len(lines) - 3))
