"""gen — shared value generators.  Every random choice comes from the rng passed in."""
B = 1 << 64

def hx(x):
    return ('-%x' % -x) if x < 0 else ('%x' % x)

def hb(bs):
    return 'x:' + ''.join('%02x' % b for b in bs)

SHAPES = ['uniform', 'runs', 'ones', 'onebit', 'pow2m1', 'pow2p1', 'lowzero', 'top63', 'topmax', 'top1', 'sparse', 'zero']

def limbs_value(rng, n, shape=None):
    """A value in [0, B^n) of the given shape (n >= 1)."""
    if n <= 0:
        return 0
    shape = shape or rng.choice(SHAPES)
    bits = 64 * n
    if shape == 'uniform':
        return rng.getrandbits(bits)
    if shape == 'runs':
        # long runs of zeros and ones, like mpz_rrandomb
        x = 0; pos = 0; bit = rng.getrandbits(1)
        while pos < bits:
            run = min(bits - pos, 1 + int(rng.expovariate(1.0 / rng.choice([3, 17, 64, 130]))))
            if bit:
                x |= ((1 << run) - 1) << pos
            pos += run; bit ^= 1
        return x
    if shape == 'ones':
        return (1 << bits) - 1
    if shape == 'onebit':
        return 1 << rng.randrange(bits)
    if shape == 'pow2m1':
        return (1 << rng.randrange(1, bits + 1)) - 1
    if shape == 'pow2p1':
        return ((1 << rng.randrange(0, bits - 1 if bits > 1 else 1)) + 1) % (1 << bits)
    if shape == 'lowzero':
        k = rng.randrange(0, n)
        return (rng.getrandbits(64 * (n - k)) | 1) << (64 * k) if n - k > 0 else 0
    if shape == 'top63':
        return (1 << (bits - 1)) | rng.getrandbits(bits - 64) if n > 1 else (1 << 63)
    if shape == 'topmax':
        return ((B - 1) << (bits - 64)) | (rng.getrandbits(bits - 64) if n > 1 else 0)
    if shape == 'top1':
        return (1 << (bits - 64)) | (rng.getrandbits(bits - 64) if n > 1 else 0)
    if shape == 'sparse':
        x = 0
        for _ in range(rng.randrange(1, 5)):
            x |= 1 << rng.randrange(bits)
        return x
    if shape == 'zero':
        return 0
    raise ValueError(shape)

def nonzero_top(rng, n, shape=None):
    """Value with exactly n significant limbs."""
    for _ in range(20):
        x = limbs_value(rng, n, shape)
        if x >> (64 * (n - 1)):
            return x
        shape = None
    return (1 << (64 * (n - 1))) | limbs_value(rng, n - 1, 'uniform') if n > 1 else 1

def signed_value(rng, maxlimbs=6):
    n = rng.choice([0, 1, 1, 2, 2, 3, rng.randrange(1, maxlimbs + 1)])
    if n == 0:
        return 0
    x = nonzero_top(rng, n)
    return -x if rng.getrandbits(1) else x

def size_set(crossovers, extra=()):
    s = set([1, 2, 3])
    for t in crossovers:
        for d in (-1, 0, 1):
            if t + d >= 1:
                s.add(t + d)
    s.update(extra)
    return sorted(s)

LIMB_EDGE = [0, 1, 2, 3, B - 1, B - 2, 1 << 63, (1 << 63) - 1, (1 << 63) + 1, 1 << 32, (1 << 32) - 1, 0x5555555555555555, 0xAAAAAAAAAAAAAAAA]
def limb(rng):
    return rng.choice(LIMB_EDGE) if rng.random() < 0.4 else rng.getrandbits(64)
