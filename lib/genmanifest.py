#!/usr/bin/env python3
"""Write MANIFEST.json from the table below (kept in one place so it stays valid)."""
import json, os
ROOT = os.path.dirname(os.path.dirname(os.path.abspath(__file__)))

TECH = 'Coq 8.16 theorems about hand-written Gallina models of the C routines + correspondence check (extracted OCaml model vs libmpir.a built from /repo) + regenerated tables where named'

CHECKS = {
 'C01': dict(
   text='Coq theorems (Properties_C01.v): limb-level models of mpn_mul_1/addmul_1/submul_1 and of mpn_mul_basecase return exactly u*v (+/- r) with every result limb and the returned high limb, for every length and content; the Karatsuba recombination with its |xh-xl||yh-yl| sign rule equals x*y for every split size, threshold and recursion depth; the mpz_mul/mul_ui/mul_si/addmul/submul(_ui) models return the exact signed value and a well-formed object; the parameter selection of mpn_mul_fft_main (regenerated FFT_TAB) yields for ALL operand sizes and all well-formed tables a (depth,w) for which no convolution coefficient wraps. Correspondence: every multiplication entry point vs the model at all size pairs <= 24, at every crossover of the regenerated threshold table +-1, strips, all-ones data, same-pointer operands; (depth,w) observed by link-time wrapping compared with the model.',
   note='Not proved, tied by execution only: limb-level Toom-3/4/8h evaluation/interpolation, the FFT transforms, assembly sqr_basecase/mullow/mulmid. Above 96 limbs (quick) products are compared through residues modulo four moduli (theorem C01_mul_residues). Trusted: Coq kernel, extraction, drivers, generators, translator/gen_tables.py.',
   design='6/C01'),
 'C02': dict(
   text='Coq theorems (Properties_C02.v): the gmp-impl.h macros transcribed with explicit wrap-around — invert_limb, udiv_qrnnd_preinv1, mpir_invert_pi1 and the Moeller-Granlund udiv_qr_3by2 step — return the exact quotient and remainder for every normalised divisor and every dividend in their domain (all correction branches, equality edges); the mpn_divrem_1/mod_1 recurrence gives n = q d + r, r < d for every length and every non-zero limb; the mpz families tdiv/fdiv/cdiv (q, r, qr, _ui with return |r|, _2exp), mod, divexact, divisible_p, congruent_p(_2exp) equal Z.quot/Z.rem, floor and ceiling division with the manual\'s remainder signs, d = 0 being the DivByZero tag or the manual\'s defined answer. Correspondence: 90 000 cases incl. operands constructed so that quotient estimates are one or two too large (minimal normalised top limbs, all-ones below, tiny top limb), equal leading limbs, every one-limb divisor class, divisors with zero low limbs, all signs and alias patterns, sizes around each division crossover; large divisions certified by the model through n = q d + r modulo four moduli and 0 <= r < d.',
   note='Not proved, tied by execution only: sb_div_qr/dc_div_*/inv_div_*/mpn_invert/Hensel and bdiv routines and the assembly division kernels (mpn_tdiv_qr is compared with Z division in every regime). DIVIDE_BY_ZERO observed as SIGFPE. Trusted: Coq kernel, extraction, drivers, generators.',
   design='6/C02'),
 'C03': dict(
   text='Coq theorems (Properties_C03.v): for every length and limb content the models of mpn_add_n/sub_n/add_1/sub_1/add/sub/neg_n/com_n/lshift/rshift/cmp/zero_p/zero equal the exact integer function incl. returned carry/borrow/shifted-out bits; the C loops over a shared memory give the same result for every permitted overlap; the mpz_add/sub/add_ui/sub_ui/ui_sub/neg/abs/mul_2exp/set/swap models return the exact signed value and a well-formed object. The models are tied to /repo by running the extracted model and the freshly built library on the same generated cases.',
   note='Trusted: Coq kernel, extraction (ExtrOcamlBasic), OCaml/C drivers, generators. Modelled, not verified: the C source itself (tied by execution); assembly kernels add_err*/sub_err* are outside (C14).',
   design='6/C03'),
 'C04': dict(
   text='Coq theorems (Properties_C04.v) about the allocation state machine of mpz variables (init, init2, clear, realloc2, _mpz_realloc, set, set_ui, neg, abs, swap, add, sub, add_ui, sub_ui, mul_2exp, mul incl. its free-then-allocate and allocate-then-free aliased paths): for EVERY finite operation sequence every variable stays well formed (the allocation each function requests suffices for the value it stores), every reallocate/free event carries exactly the current size of a live block, the bytes held equal the net of the event trace so that clearing every variable leaves no block, and values are independent of the allocation history (any realloc2 that keeps the value representable is neutral). Tie to the code: 3000 random histories per run whose per-variable (alloc, value) and exact allocator event trace are compared with the model; 3000 histories over all 122 functions of the regenerated prototype table plus limbs_write/finish, string input of arbitrary bytes (incl. 70 000-character strings with an invalid byte), raw I/O of arbitrary and truncated byte streams, gmp_asprintf at digit counts around powers of two, under the recording allocator (exact-size check, red zones, always-moving poisoning realloc, live-block accounting) and replayed with every destination pre-shrunk and pre-grown. This check found that mpz_inp_raw leaves a malformed variable on a truncated stream (fixed in /repo 8f152ba).',
   note='Functions outside the modelled set F are covered by runtime monitoring only (histA), not by a theorem; reads/writes inside mpn routines are visible only through red zones and poisoning; C-level UB is outside. TMP (alloca/heap) blocks are not modelled: histories keep operands below the 65536-byte TMP switch except the long-string cases. Trusted: harness/ops_hist.c, the recording allocator in harness/drv.c, translator/gen_protos.py.',
   design='6/C04'),
 'C05': dict(
   text='Coq theorems (Properties_C05.v): in the variable-store semantics of a call (same variable = same key) the output holds the function of the INITIAL input values whatever subset of inputs it coincides with and every non-output variable keeps its value (one and two outputs, the latter under the manual\'s q <> r restriction); the mpn add_n/sub_n/copyi/copyd/lshift/rshift C loops on one shared memory compute the pure function for every overlap the manual permits. Tie to the code: the prototype table is regenerated from gmp-h.in and EVERY permitted alias partition of the object arguments of all 122 mpz/mpq/mpf functions (377 partitions) is run: distinct variables vs the aliased arrangement on equal values under an always-moving, poisoning allocator with minimal destination allocation; every argument, return value and format rule is compared.',
   note='The store theorems are a specification of aliasing, not a pointer-level model of each C function: for mpz/mpq/mpf functions the property is decided by exhaustive enumeration of alias partitions on the implementation (values are sampled per partition). Functions with string/FILE/random-state/raw-pointer arguments are outside this harness. Trusted: translator/gen_protos.py, harness/ops_alias.c.',
   design='6/C05', technique='Coq theorems (store semantics, mpn overlap on shared memory) + exhaustive alias-partition enumeration of the regenerated prototype table against libmpir.a (metamorphic distinct-vs-aliased)'),
 'C06': dict(
   text='Coq theorems (Properties_C06.v) on tables REGENERATED from mpn/generic/mp_bases.c and mp_dv_tab.c on every run: every base entry 2..62 has big_base = b^chars_per_limb < 2^64 <= b^(chars_per_limb+1) and big_base_inverted = invert_limb of the normalised big_base; every chars_per_bit_exactly is log 2/log b to within 2^-50 (real-number statement proved by Coq Interval); positional notation: the digit list of x is unique (digits < b, no leading zero, Horner gives x); the chunked generation/consumption of mpn_get_str/mpn_set_str with big_base = b^cpl equals it for every chunk size; what mpz_get_str writes (every base 2..62 and -2..-36, both alphabets) mpz_set_str reads back exactly and mpz_inp_str consumes exactly those bytes; a string whose first non-blank is not a digit of the base is rejected with -1; mpz_sizeinbase is exact for power-of-two bases. Correspondence on 25 000 cases: the byte-level parsers of mpz_set_str/mpz_inp_str/mpq_set_str incl. base-0 prefixes, white space, case rules, every byte of a 20-symbol alphabet at every position of all strings up to length 3; all bases; b^k, b^k+-1, maximal digits and long zero runs across the basecase/divide-and-conquer/power-table crossovers; borderline size estimates at powers up to 120 000 digits; buffer bound sizeinbase+2 with canaries.',
   note='mpn_dc_get_str/mpn_dc_set_str and the power tables are tied by execution against the proved digit semantics; the "exact or one too large" clause of mpz_sizeinbase for non-power-of-two bases is tied by execution (model of the double product incl. rounding) without a theorem. C06_chars_per_bit depends on the standard library real-number axioms and classical logic (via Coq Interval; reported by Print Assumptions in the evidence). Trusted: translator/gen_consts.py.',
   design='6/C06'),
 'C07': dict(
   text='Coq theorems (Properties_C07.v): the binary algorithm of mpn_gcd_1 (common twos, odd parts, subtract-and-strip, with its fuel bound) returns the gcd for all non-zero limbs; extended Euclid with the manual\'s normalisation: g = gcd >= 0, a s + b t = g, 2 g |s| <= |b| and every listed special case (b = 0, a = 0, |a| = |b|, s = 0 only if g = |b|); lcm = |a b| / g; mpz_invert returns an inverse exactly when gcd = 1 (|n| > 1) and it lies in [0, |n|); the Kronecker symbol model takes values in {-1,0,1}, vanishes exactly when the arguments have a common factor, is periodic in the numerator and agrees with the Jacobi loop for odd positive denominators. Correspondence on 19 000 cases (all cofactors compared exactly with the implementation): Fibonacci-like pairs, huge partial quotients, equal limb counts, a = b, b | a, |b| = 2g, huge common factors, zero, negatives, all symbol classes incl. even denominators, exhaustive small symbols; operands across the HGCD/GCD_DC/GCDEXT_DC crossovers certified by the model (g | a, g | b, Bezout, bounds).',
   note='hgcd, hgcd_appr, hgcd_reduce, Lehmer and divide-and-conquer gcdext, matrix22_mul are tied by execution only. That the reciprocity algorithm of the symbol model equals the symbol defined through quadratic residues rests on quadratic reciprocity, which is not proved here (multiplicativity is therefore not a theorem). Trusted: Coq kernel, extraction, drivers, generators.',
   design='6/C07'),
 'C08': dict(
   text='Coq theorems (Properties_C08.v): limb-by-limb Montgomery reduction (mpn_redc_1 as coded: subtract only on carry-out) returns a representative of T B^-n mod m below B^n for every odd n-limb modulus and every 2n-limb T; the Newton iteration for the inverse of an odd limb modulo 2^64; binary and fixed-window exponentiation of any width equal b^e mod m for every exponent; the even-modulus recombination r1 + m_odd ((r2 - r1) m_odd^-1 mod 2^t) equals x mod (m_odd 2^t); the mpz_powm wrapper returns b^e mod |m| for every base, non-negative exponent and non-zero modulus, the inverse power for negative exponents with invertible base, DivByZero otherwise; 0^0 = 1. Correspondence: 4400 exact cases (moduli odd, 2^k, odd*2^k with whole zero limbs, +-1; even bases with one-limb exponents around the valuation shortcut; negative/zero/huge bases; REDC inputs around the carry threshold) and moduli of 5..303 limbs (REDC-1/2/n, POWM, binvert Newton crossovers, odd limb counts) built from pairwise coprime factors and certified by the model through the Chinese remainder theorem.',
   note='redc_2, redc_n, mpn_powm\'s window tables, mpn_powlo, mpn_binvert are tied by execution only. Trusted: Coq kernel, extraction, drivers, generators.',
   design='6/C08'),
 'C10': dict(
   text='Coq theorems (Properties_C10.v): limb-wise and_n/andn_n/ior_n/iorn_n/nand_n/nior_n/xor_n/xnor_n equal Z.land/Z.lor/Z.lxor (and complements) of the values for every length; popcount/hamdist count set bits; scan0/scan1 return the least matching bit at or above the start or the largest bit count exactly when none exists; mpz_and/ior/xor/com built from |x|-1, limb-wise op, +1 equal Z.land/Z.lor/Z.lxor/Z.lnot on signed values for all four sign combinations and all lengths, results well-formed; mpz_tstbit transcribed from tstbit.c equals Z.testbit; setbit/clrbit/combit equal Z.setbit/Z.clearbit/xor 2^k; mpz_popcount/hamdist incl. the "infinite" answers. Correspondence on 46 000 cases aimed at negative operands with low/interior zero limbs, -1, -2^k, complement blocks, bit indices below/at/above the length.',
   note='mpz logical functions are modelled through the identities the C code uses, not each in-place loop; scan/popcount/hamdist at value level. Tied by execution. Trusted: Coq kernel, extraction, drivers, generators.',
   design='6/C10'),
 'C11': dict(
   text='Coq theorems (Properties_C11.v): mpz_cmp as coded (sizes, then limbs from the top) is the sign of the exact difference; integer, rational (positive denominators) and double comparisons form one consistent total order (antisymmetry, transitivity, equality iff equal/canonical-equal); doubles are their exact dyadic values: mpz_cmp_d/cmpabs_d compare exactly, infinities lie beyond every integer, NaN is the Invalid tag; fits_* are true exactly on the representable range and get_ui/get_si/get_sx are exact there; mpz_set_d truncates toward zero; mpz_get_d yields the finite double with a full 53-bit significand that truncates |z| toward zero (never rounds up), exact for at most 53 significant bits, infinity of the right sign from 2^1024 on. Correspondence on 20 000 cases at every C type boundary +-1, 2^k+-1 up to k=1100, >53-bit values whose dropped bits straddle one half, every class of double (zero, subnormal, 2^53 neighbourhood, huge exponents, infinities, NaN) given as bit patterns.',
   note='mpz_get_d_2exp, mpq_get_d and the subnormal/underflow branch of mpn_get_d are modelled and tied by execution but have no theorem yet; mpf comparisons belong to C13. NaN/Inf traps observed as SIGFPE. Trusted: Coq kernel, extraction, drivers, generators.',
   design='6/C11'),
 'C12': dict(
   text='Coq theorems (Properties_C12.v): for canonical inputs mpq_add/sub (Henrici with both gcd branches), mul (cross-gcd cancellation and the squaring shortcut), div, inv, neg, abs, mul_2exp, div_2exp return exactly the mathematical result (cross-multiplied equality) in canonical form (denominator positive, gcd 1, zero as 0/1); division/inversion by zero is the DivByZero tag; mpq_canonicalize canonicalises any pair with non-zero denominator without changing its value and is the identity on canonical input; set_z, set_d (every finite double, exact dyadic), set_f are exact and canonical. Correspondence on 67 000 cases built from chosen factor sets so that each gcd in each branch is trivial / non-trivial / equal to an operand, all alias patterns, shift counts across limb boundaries. This check found the in-place mpq_mul_2exp/mpq_div_2exp corruption (fixed in /repo 6f382e3).',
   note='The model uses Z.gcd and exact division where the library calls mpz_gcd/mpz_divexact_gcd (those are C07/C02). Tied by execution. Trusted: Coq kernel, extraction, drivers, generators.',
   design='6/C12'),
}

NA_REASON = 'check not built yet in this round (work in progress; the design in DESIGN.md section 6 claims it as applicable)'
ALL = ['C%02d' % i for i in range(1, 21)]

def main():
    checks = []
    for pid in ALL:
        if pid not in CHECKS:
            continue
        c = CHECKS[pid]
        checks.append({
            'property_id': pid,
            'quick_cmd': 'bin/check %s --tier quick' % pid,
            'thorough_cmd': 'bin/check %s --tier thorough' % pid,
            'evidence_file': 'evidence/%s.json' % pid,
            'replay_cmd_template': 'bin/check %s --replay {path}' % pid,
            'engine': 'coq-proof+correspondence',
            'level_claimed': {'category': 'proof', 'text': c['text'], 'design_ref': 'DESIGN.md ' + c['design']},
            'level_note': c['note'],
            'technique': c.get('technique', TECH),
        })
    m = {
        'version': 1,
        'setup_cmd': 'bin/setup',
        'hooks': {'guard': 'MPIR_VERIF', 'enable': 'no source hooks: internal routines are observed with link-time --wrap, the allocator through mp_set_memory_functions, streams through fopencookie; the guard is reserved', 'baseline_off_cmd': 'cd /repo && make -k -j8 check', 'source_commits': [], 'add_only': True},
        'engines': [{'name': 'coq-proof+correspondence', 'path': 'bin/check', 'serves_properties': [c['property_id'] for c in checks],
                     'kind_free_text': 'Coq 8.16.1 development under coq/ (theories, props, regenerated gen/), extracted to OCaml and run against libmpir.a built from /repo working tree'}],
        'checks': checks,
        'notes': 'See DESIGN.md. bin/setup builds the Coq development, the extraction and the OCaml driver; every check rebuilds libmpir.a from /repo (cached by content hash under .cache/).',
        'not_applicable': [{'property_id': p, 'reason': NA_REASON} for p in ALL if p not in CHECKS],
    }
    with open(os.path.join(ROOT, 'MANIFEST.json'), 'w') as fh:
        json.dump(m, fh, indent=1)
    print('MANIFEST.json: %d checks, %d not_applicable' % (len(checks), len(m['not_applicable'])))

if __name__ == '__main__':
    main()
