/* ops_conv.c — C11: comparisons and conversions to and from C types.  Doubles travel as their
   IEEE-754 bit patterns; an invalid operation (NaN/Inf where the library traps) shows up as SIGFPE. */
#include "common.h"

double bits_to_double(unsigned long b) { union { unsigned long u; double d; } x; x.u = b; return x.d; }
unsigned long double_to_bits(double d) { union { unsigned long u; double d; } x; x.d = d; return x.u; }
static long sg(long v) { return v < 0 ? -1 : v > 0; }

static void op_set_d(int argc, char **argv)
{ (void)argc; mpz_t z; mpz_init(z); mpz_realloc2(z, 1); mpz_set_d(z, bits_to_double(arg_ul(argv[1]))); out_z(z); mpz_clear(z); }
static void op_get_d(int argc, char **argv)
{ (void)argc; mpz_t z; parse_z(argv[1], z); outul(double_to_bits(mpz_get_d(z))); mpz_clear(z); }
/* mpn_get_d X sign exp : {limbs of |X|} * 2^exp truncated to a double, negative if sign < 0 (the internal routine behind every
   conversion to double, with the exponent a caller may pass) */
static void op_mpn_get_d(int argc, char **argv)
{ (void)argc; mpz_t z; parse_z(argv[1], z); long sign = arg_l(argv[2]), e = arg_l(argv[3]);
  outul(double_to_bits(mpn_get_d(PTR(z), ABSIZ(z), (mp_size_t) sign, e))); mpz_clear(z); }
static void op_get_d_2exp(int argc, char **argv)
{ (void)argc; mpz_t z; parse_z(argv[1], z); mpir_si e; double d = mpz_get_d_2exp(&e, z); outul(double_to_bits(d)); outl(e); mpz_clear(z); }
static void op_cmp_d(int argc, char **argv)
{ (void)argc; mpz_t z; parse_z(argv[1], z); outl(sg(mpz_cmp_d(z, bits_to_double(arg_ul(argv[2]))))); mpz_clear(z); }
static void op_cmpabs_d(int argc, char **argv)
{ (void)argc; mpz_t z; parse_z(argv[1], z); outl(sg(mpz_cmpabs_d(z, bits_to_double(arg_ul(argv[2]))))); mpz_clear(z); }
static void op_cmp(int argc, char **argv)
{ (void)argc; mpz_t a, b; parse_z(argv[1], a); parse_z(argv[2], b);
  outl(sg(mpz_cmp(a, b))); outl(sg(mpz_cmpabs(a, b))); outl(mpz_sgn(a)); outl(sg(mpz_cmp(a, a))); mpz_clear(a); mpz_clear(b); }
static void op_cmp_ui(int argc, char **argv)
{ (void)argc; mpz_t a; parse_z(argv[1], a); mpir_ui v = arg_ul(argv[2]);
  outl(sg(mpz_cmp_ui(a, v))); outl(sg(mpz_cmpabs_ui(a, v))); outl(sg(_mpz_cmp_ui(a, v))); mpz_clear(a); }
static void op_cmp_si(int argc, char **argv)
{ (void)argc; mpz_t a; parse_z(argv[1], a); mpir_si v = arg_l(argv[2]);
  outl(sg(mpz_cmp_si(a, v))); outl(sg(_mpz_cmp_si(a, v))); mpz_clear(a); }
static void op_get(int argc, char **argv)
{ (void)argc; mpz_t a; parse_z(argv[1], a);
  outul(mpz_get_ui(a)); outl(mpz_get_si(a)); outul(mpz_get_ux(a)); outl(mpz_get_sx(a)); mpz_clear(a); }
static void op_fits(int argc, char **argv)
{ (void)argc; mpz_t a; parse_z(argv[1], a);
  outl(mpz_fits_ulong_p(a) != 0); outl(mpz_fits_slong_p(a) != 0); outl(mpz_fits_uint_p(a) != 0); outl(mpz_fits_sint_p(a) != 0);
  outl(mpz_fits_ushort_p(a) != 0); outl(mpz_fits_sshort_p(a) != 0); mpz_clear(a); }
static void op_set_ui(int argc, char **argv)
{ (void)argc; mpz_t a, b, c; mpz_init(a); mpz_init(b); mpz_realloc2(a, 1); mpz_realloc2(b, 1);
  mpz_set_ui(a, arg_ul(argv[1])); mpz_set_ux(b, arg_ul(argv[1])); mpz_init_set_ui(c, arg_ul(argv[1]));
  out_z(a); out_z(b); out_z(c); mpz_clear(a); mpz_clear(b); mpz_clear(c); }
static void op_set_si(int argc, char **argv)
{ (void)argc; mpz_t a, b, c; mpz_init(a); mpz_init(b); mpz_realloc2(a, 1); mpz_realloc2(b, 1);
  mpz_set_si(a, arg_l(argv[1])); mpz_set_sx(b, arg_l(argv[1])); mpz_init_set_si(c, arg_l(argv[1]));
  out_z(a); out_z(b); out_z(c); mpz_clear(a); mpz_clear(b); mpz_clear(c); }

const op_t ops_conv[] = {
  {"mpz_set_d", op_set_d}, {"mpz_get_d", op_get_d}, {"mpn_get_d", op_mpn_get_d}, {"mpz_get_d_2exp", op_get_d_2exp}, {"mpz_cmp_d", op_cmp_d}, {"mpz_cmpabs_d", op_cmpabs_d},
  {"mpz_cmp", op_cmp}, {"mpz_cmp_ui", op_cmp_ui}, {"mpz_cmp_si", op_cmp_si}, {"mpz_get", op_get}, {"mpz_fits", op_fits},
  {"mpz_set_ui", op_set_ui}, {"mpz_set_si", op_set_si},
  {NULL, NULL}
};
