/* ops_pow.c — C08: powers and modular powers; REDC and binvert_limb tied at limb level. */
#include "common.h"

/* mpz_powm B E M alias (0 none, 1 r=b, 2 r=e, 3 r=m) */
static void op_powm(int argc, char **argv)
{ (void)argc; mpz_t b, e, m, r; parse_z(argv[1], b); parse_z(argv[2], e); parse_z(argv[3], m); mpz_init(r); mpz_realloc2(r, 1);
  int al = (int)arg_l(argv[4]); mpz_ptr pr = al == 1 ? b : al == 2 ? e : al == 3 ? m : r;
  mpz_powm(pr, b, e, m); out_z(pr); mpz_clear(b); mpz_clear(e); mpz_clear(m); mpz_clear(r); }
static void op_powm_ui(int argc, char **argv)
{ (void)argc; mpz_t b, m, r; parse_z(argv[1], b); parse_z(argv[3], m); mpz_init(r); mpz_realloc2(r, 1);
  int al = (int)arg_l(argv[4]); mpz_ptr pr = al == 1 ? b : al == 3 ? m : r;
  mpz_powm_ui(pr, b, arg_ul(argv[2]), m); out_z(pr); mpz_clear(b); mpz_clear(m); mpz_clear(r); }
static void op_pow_ui(int argc, char **argv)
{ (void)argc; mpz_t b, r; parse_z(argv[1], b); mpz_init(r); mpz_realloc2(r, 1);
  mpz_ptr pr = arg_l(argv[3]) ? b : r; mpz_pow_ui(pr, b, arg_ul(argv[2])); out_z(pr); mpz_clear(b); mpz_clear(r); }
static void op_ui_pow_ui(int argc, char **argv)
{ (void)argc; mpz_t r; mpz_init(r); mpz_realloc2(r, 1); mpz_ui_pow_ui(r, arg_ul(argv[1]), arg_ul(argv[2])); out_z(r); mpz_clear(r); }
/* mpn_redc_1 n T M : T has 2n limbs, M odd n limbs; Nprim = -M^-1 mod B from the modlimb_invert macro */
static void op_redc_1(int argc, char **argv)
{ (void)argc; mp_size_t n = arg_l(argv[1]);
  mp_ptr tp = gbuf_alloc(2 * n), mp = gbuf_alloc(n), cp = gbuf_alloc(n);
  parse_limbs(argv[2], tp, 2 * n); parse_limbs(argv[3], mp, n);
  mp_limb_t inv; modlimb_invert(inv, mp[0]);
  mpn_redc_1(cp, tp, mp, n, -inv);
  out_limbs(cp, n); outul(inv);
  if (!gbuf_ok(tp, 2 * n) || !gbuf_ok(mp, n) || !gbuf_ok(cp, n)) outs("REDZONE");
  gbuf_free(tp); gbuf_free(mp); gbuf_free(cp); }
/* mpn_redc_n n T M : T has 2n limbs with high half below M, M odd n limbs (n > 8); the n-limb inverse comes from mpn_binvert as in
   mpn_powm.  The result is the canonical residue T * B^-n mod M. */
static void op_redc_n(int argc, char **argv)
{ (void)argc; mp_size_t n = arg_l(argv[1]);
  mp_ptr tp = gbuf_alloc(2 * n), mp = gbuf_alloc(n), cp = gbuf_alloc(n), ip = gbuf_alloc(n), sc = gbuf_alloc(mpn_binvert_itch(n) + 2 * n);
  parse_limbs(argv[2], tp, 2 * n); parse_limbs(argv[3], mp, n);
  mpn_binvert(ip, mp, n, sc);
  mpn_redc_n(cp, tp, mp, n, ip);
  out_limbs(cp, n);
  if (!gbuf_ok(tp, 2 * n) || !gbuf_ok(mp, n) || !gbuf_ok(cp, n) || !gbuf_ok(ip, n)) outs("REDZONE");
  gbuf_free(tp); gbuf_free(mp); gbuf_free(cp); gbuf_free(ip); gbuf_free(sc); }
/* mpn_powm B E M : the internal routine with B of any length, E > 1, M odd of n limbs (n result limbs) */
static void op_mpn_powm(int argc, char **argv)
{ (void)argc; mpz_t b, e, m; parse_z(argv[1], b); parse_z(argv[2], e); parse_z(argv[3], m);
  mp_size_t bn = ABSIZ(b), en = ABSIZ(e), n = ABSIZ(m);
  mp_ptr rp = gbuf_alloc(n), tp = gbuf_alloc(2 * n + mpn_binvert_itch(n) + 64);
  mpn_powm(rp, PTR(b), bn, PTR(e), en, PTR(m), n, tp);
  out_limbs(rp, n); if (!gbuf_ok(rp, n)) outs("REDZONE");
  gbuf_free(rp); gbuf_free(tp); mpz_clear(b); mpz_clear(e); mpz_clear(m); }
static void op_powmcheck(int argc, char **argv) { (void)argc; (void)argv; outl(1); }
const op_t ops_pow[] = {
  {"mpz_powm", op_powm}, {"mpz_powm_ui", op_powm_ui}, {"mpz_pow_ui", op_pow_ui}, {"mpz_ui_pow_ui", op_ui_pow_ui},
  {"mpn_redc_1", op_redc_1}, {"mpn_powm", op_mpn_powm}, {"mpz_powm_c", op_powm}, {"mpn_redc_n", op_redc_n}, {"powmcheck", op_powmcheck},
  {NULL, NULL}
};
