/* ops_hist.c — C04: histories of API calls on a pool of variables under the recording allocator.
   histF: F-operations only (numeric op codes, see coq/theories/ApiAlloc.v); prints (alloc, value)
          of every variable and the allocator event trace, compared with the model.
   histA: arbitrary public functions through the generated thunk table, object management, string
          and raw I/O with arbitrary bytes; after every call every live object must be well formed
          and the heap red zones intact; at the end everything is cleared and no block may remain;
          the history is replayed with every destination pre-shrunk (mode 1) and pre-grown (mode 2)
          and the final values must be identical. */
#include "common.h"
#include "alias.h"

extern int alloc_trace; extern char trace_buf[]; extern size_t trace_len;
extern long alloc_errors; extern long live_blocks;
int all_redzones_ok(void);

#define NV 8
static mpz_t Z[NV]; static int zl[NV];

/* ------------------------------------------------------------------ histF */
static void op_histF(int argc, char **argv)
{
  int nv = (int)arg_l(argv[1]);
  for (int i = 0; i < NV; i++) zl[i] = 0;
  trace_len = 0; trace_buf[0] = 0; alloc_trace = 1;
  int i = 2;
#define A(k) arg_l(argv[i + (k)])
#define LIVE(k) ((k) >= 0 && (k) < nv && zl[k])
  while (i < argc) {
    long c = arg_l(argv[i]);
    if (c == 1) { long k = A(1); if (k >= 0 && k < nv && !zl[k]) { mpz_init(Z[k]); zl[k] = 1; } i += 2; }
    else if (c == 2) { long k = A(1); if (k >= 0 && k < nv && !zl[k]) { mpz_init2(Z[k], (mp_bitcnt_t)A(2)); zl[k] = 1; } i += 3; }
    else if (c == 3) { long k = A(1); if (LIVE(k)) { mpz_clear(Z[k]); zl[k] = 0; } i += 2; }
    else if (c == 4) { long k = A(1); if (LIVE(k)) mpz_realloc2(Z[k], (mp_bitcnt_t)A(2)); i += 3; }
    else if (c == 5) { long w = A(1), u = A(2); if (LIVE(w) && LIVE(u)) mpz_set(Z[w], Z[u]); i += 3; }
    else if (c == 6) { long w = A(1); if (LIVE(w)) mpz_set_ui(Z[w], arg_ul(argv[i+2])); i += 3; }
    else if (c == 7) { long w = A(1), u = A(2); if (LIVE(w) && LIVE(u)) mpz_neg(Z[w], Z[u]); i += 3; }
    else if (c == 8) { long w = A(1), u = A(2); if (LIVE(w) && LIVE(u)) mpz_abs(Z[w], Z[u]); i += 3; }
    else if (c == 9) { long a = A(1), b = A(2); if (LIVE(a) && LIVE(b)) mpz_swap(Z[a], Z[b]); i += 3; }
    else if (c == 10) { long w = A(1), u = A(2), v = A(3); if (LIVE(w) && LIVE(u) && LIVE(v)) mpz_add(Z[w], Z[u], Z[v]); i += 4; }
    else if (c == 11) { long w = A(1), u = A(2), v = A(3); if (LIVE(w) && LIVE(u) && LIVE(v)) mpz_sub(Z[w], Z[u], Z[v]); i += 4; }
    else if (c == 12) { long w = A(1), u = A(2); if (LIVE(w) && LIVE(u)) mpz_add_ui(Z[w], Z[u], arg_ul(argv[i+3])); i += 4; }
    else if (c == 13) { long w = A(1), u = A(2); if (LIVE(w) && LIVE(u)) mpz_sub_ui(Z[w], Z[u], arg_ul(argv[i+3])); i += 4; }
    else if (c == 14) { long w = A(1), u = A(2); if (LIVE(w) && LIVE(u)) mpz_mul_2exp(Z[w], Z[u], arg_ul(argv[i+3])); i += 4; }
    else if (c == 15) { long w = A(1), u = A(2), v = A(3); if (LIVE(w) && LIVE(u) && LIVE(v)) mpz_mul(Z[w], Z[u], Z[v]); i += 4; }
    else break;
  }
  alloc_trace = 0;
  for (int k = 0; k < nv; k++) {
    if (zl[k]) { outl(ALLOC(Z[k])); out_zv(Z[k]); if (!z_wf(Z[k])) outs("BADFORMAT"); }
    else { outl(-1); outl(0); }
  }
  /* trace: "A<hex> " "R<old>,<new> " "F<hex> " -> numbers */
  for (char *t = trace_buf; *t; ) {
    char k = *t++; unsigned long a = strtoul(t, &t, 16), b = 0;
    if (k == 'R') { t++; b = strtoul(t, &t, 16); }
    while (*t == ' ') t++;
    if (k == 'A') { outl(1); outul(a); } else if (k == 'R') { outl(2); outul(a); outul(b); } else { outl(3); outul(a); }
  }
  for (int k = 0; k < nv; k++) if (zl[k]) { mpz_clear(Z[k]); zl[k] = 0; }
}

/* ------------------------------------------------------------------ histA */
#define NQ 4
#define NF 4
static mpq_t Q[NQ]; static int ql[NQ];
static mpf_t F[NF]; static int fl[NF];
static __thread char why[160];

static int pool_check(void)
{
  for (int i = 0; i < NV; i++) if (zl[i] && !z_wf(Z[i])) { snprintf(why, sizeof why, "BADFORMAT-z%d", i); return 0; }
  for (int i = 0; i < NQ; i++) if (ql[i] && (!z_wf(mpq_numref(Q[i])) || !z_wf(mpq_denref(Q[i])))) { snprintf(why, sizeof why, "BADFORMAT-q%d", i); return 0; }
  for (int i = 0; i < NF; i++) if (fl[i]) {
    mp_size_t n = ABSIZ(F[i]);
    if (n > PREC(F[i]) + 1 || (n > 0 && PTR(F[i])[n-1] == 0) || (n == 0 && EXP(F[i]) != 0)) { snprintf(why, sizeof why, "BADFORMAT-f%d", i); return 0; }
  }
  if (alloc_errors) { snprintf(why, sizeof why, "ALLOC-CONTRACT"); return 0; }
  if (!all_redzones_ok()) { snprintf(why, sizeof why, "HEAP-REDZONE"); return 0; }
  return 1;
}
static void zset_hex(mpz_ptr z, const char *s) { mpz_t t; parse_z(s, t); mpz_set(z, t); mpz_clear(t); }
static void prep(mpz_ptr z, int mode)
{
  if (mode == 1) mpz_realloc2(z, (ABSIZ(z) ? ABSIZ(z) : 1) * GMP_NUMB_BITS);
  else if (mode == 2) mpz_realloc2(z, (ABSIZ(z) + 3) * GMP_NUMB_BITS);
}
static size_t unhex(const char *s, unsigned char *buf, size_t cap)
{ size_t n = 0; if (s[0] == 'x' && s[1] == ':') s += 2; while (s[0] && s[1] && n < cap) { unsigned v; sscanf(s, "%2x", &v); buf[n++] = (unsigned char)v; s += 2; } return n; }

/* run the history once; final values appended to out (a growing string) */
static int run_hist(int argc, char **argv, int mode, char **outp, size_t *outn)
{
  for (int i = 0; i < NV; i++) zl[i] = 0;
  for (int i = 0; i < NQ; i++) ql[i] = 0;
  for (int i = 0; i < NF; i++) fl[i] = 0;
  int ok = 1;
  int i = 2;
  while (i < argc && ok) {
    const char *op = argv[i];
    if (!strcmp(op, "zinit")) { int k = (int)arg_l(argv[i+1]); if (!zl[k]) { mpz_init(Z[k]); zl[k] = 1; } i += 2; }
    else if (!strcmp(op, "zinit2")) { int k = (int)arg_l(argv[i+1]); if (!zl[k]) { mpz_init2(Z[k], arg_ul(argv[i+2])); zl[k] = 1; } i += 3; }
    else if (!strcmp(op, "zclear")) { int k = (int)arg_l(argv[i+1]); if (zl[k]) { mpz_clear(Z[k]); zl[k] = 0; } i += 2; }
    else if (!strcmp(op, "zrealloc2")) { int k = (int)arg_l(argv[i+1]); if (zl[k] && mode == 0) { mp_bitcnt_t b = arg_ul(argv[i+2]); if (b >= (mp_bitcnt_t)ABSIZ(Z[k]) * GMP_NUMB_BITS) mpz_realloc2(Z[k], b); } i += 3; }
    else if (!strcmp(op, "zset")) { int k = (int)arg_l(argv[i+1]); if (zl[k]) zset_hex(Z[k], argv[i+2]); i += 3; }
    else if (!strcmp(op, "qinit")) { int k = (int)arg_l(argv[i+1]); if (!ql[k]) { mpq_init(Q[k]); ql[k] = 1; } i += 2; }
    else if (!strcmp(op, "qclear")) { int k = (int)arg_l(argv[i+1]); if (ql[k]) { mpq_clear(Q[k]); ql[k] = 0; } i += 2; }
    else if (!strcmp(op, "qset")) { int k = (int)arg_l(argv[i+1]); if (ql[k]) { zset_hex(mpq_numref(Q[k]), argv[i+2]); zset_hex(mpq_denref(Q[k]), argv[i+3]); } i += 4; }
    else if (!strcmp(op, "finit2")) { int k = (int)arg_l(argv[i+1]); if (!fl[k]) { mpf_init2(F[k], arg_ul(argv[i+2])); fl[k] = 1; } i += 3; }
    else if (!strcmp(op, "fclear")) { int k = (int)arg_l(argv[i+1]); if (fl[k]) { mpf_clear(F[k]); fl[k] = 0; } i += 2; }
    else if (!strcmp(op, "fset")) { int k = (int)arg_l(argv[i+1]); if (fl[k]) { mpz_t m; parse_z(argv[i+2], m); long e = arg_l(argv[i+3]); mpf_set_z(F[k], m);
        if (e >= 0) mpf_mul_2exp(F[k], F[k], (mp_bitcnt_t)e); else mpf_div_2exp(F[k], F[k], (mp_bitcnt_t)(-e)); mpz_clear(m); } i += 4; }
    else if (!strcmp(op, "fsetprec")) { int k = (int)arg_l(argv[i+1]); if (fl[k]) mpf_set_prec(F[k], arg_ul(argv[i+2])); i += 3; }
    else if (!strcmp(op, "zsetstr")) {          /* zsetstr k base x:bytes : any bytes, valid number or not */
      int k = (int)arg_l(argv[i+1]); int base = (int)arg_l(argv[i+2]);
      static unsigned char buf[1 << 17]; size_t n = unhex(argv[i+3], buf, sizeof buf - 1); buf[n] = 0;
      for (size_t j = 0; j < n; j++) if (buf[j] == 0) buf[j] = ' ';
      if (zl[k]) { if (mode) prep(Z[k], mode); (void)mpz_set_str(Z[k], (char *)buf, base); }
      i += 4; }
    else if (!strcmp(op, "zasprintf")) {         /* gmp_asprintf: block must be exactly length+1 (checked by the recording free) */
      int k = (int)arg_l(argv[i+1]); int f = (int)arg_l(argv[i+2]);
      static const char *fmts[] = { "%Zd", "%Zx", "x=%Zd", "%Zd!", "%#Zx", "%+Zd", "%40Zd", "%-40Zd|", "%Zd %Zd", "%Zo" };
      if (zl[k]) { char *s = NULL; int r = (f == 8) ? gmp_asprintf(&s, fmts[f], Z[k], Z[k]) : gmp_asprintf(&s, fmts[f % 10], Z[k]);
        if (r < 0 || s == NULL || (int)strlen(s) != r) { ok = 0; snprintf(why, sizeof why, "ASPRINTF-LENGTH"); }
        if (s) { void (*fr)(void *, size_t); mp_get_memory_functions(NULL, NULL, &fr); fr(s, (size_t)r + 1); } }
      i += 3; }
    else if (!strcmp(op, "zsetstr_long")) {     /* zsetstr_long k base len badpos : a long digit string with an invalid byte at badpos (or none if < 0) */
      int k = (int)arg_l(argv[i+1]); int base = (int)arg_l(argv[i+2]); long len = arg_l(argv[i+3]), badpos = arg_l(argv[i+4]);
      if (zl[k]) { char *s = (char *) malloc((size_t)len + 1); for (long j = 0; j < len; j++) s[j] = (char)('1' + (j * 7) % (base == 2 ? 1 : 8)); s[len] = 0;
        if (badpos >= 0 && badpos < len) s[badpos] = '!';
        if (mode) prep(Z[k], mode);
        int r = mpz_set_str(Z[k], s, base); if ((r != 0) != (badpos >= 0 && badpos < len)) { ok = 0; snprintf(why, sizeof why, "SETSTR-RETURN"); } free(s); }
      i += 5; }
    else if (!strcmp(op, "zgetstr")) {          /* mpz_get_str with NULL buffer: allocated block must be exactly strlen+1 */
      int k = (int)arg_l(argv[i+1]); int base = (int)arg_l(argv[i+2]);
      if (zl[k]) { char *s = mpz_get_str(NULL, base, Z[k]); size_t l = strlen(s);
        if (l > mpz_sizeinbase(Z[k], base < 0 ? -base : base) + 1) { ok = 0; snprintf(why, sizeof why, "GETSTR-LONGER-THAN-SIZEINBASE+1"); }
        void (*fr)(void *, size_t); mp_get_memory_functions(NULL, NULL, &fr); fr(s, l + 1); }
      i += 3; }
    else if (!strcmp(op, "zinp_raw")) {          /* arbitrary bytes as a stream */
      int k = (int)arg_l(argv[i+1]); static unsigned char buf[1 << 16]; size_t n = unhex(argv[i+2], buf, sizeof buf);
      if (zl[k]) { FILE *fp = fmemopen(n ? buf : (unsigned char *)"", n ? n : 1, "rb"); if (n == 0) fgetc(fp);
        if (mode) prep(Z[k], mode);
        size_t r = mpz_inp_raw(Z[k], fp); (void)r; fclose(fp); }
      i += 3; }
    else if (!strcmp(op, "inp_str_sweep")) {     /* inp_str_sweep kind k base lo hi : the text readers on one token of every length lo..hi
                                                    (kind 0 mpz_inp_str, 1 mpq_inp_str with a denominator, 2 mpf_inp_str with point and exponent) */
      int kind = (int)arg_l(argv[i+1]), k = (int)arg_l(argv[i+2]), base = (int)arg_l(argv[i+3]); long lo = arg_l(argv[i+4]), hi = arg_l(argv[i+5]);
      static char tb[1 << 16];
      int live = kind == 0 ? zl[k % NV] : kind == 1 ? ql[k % NQ] : fl[k % NF];
      for (long len = lo; live && len <= hi && len + 8 < (long) sizeof tb; len++) {
        for (long j = 0; j < len; j++) tb[j] = (char)('1' + (j * 7 + len) % (base == 2 ? 1 : 7));
        if (kind == 1 && len >= 3) tb[len / 2] = '/';
        if (kind == 2 && len >= 6) { tb[len / 3] = '.'; tb[len - 3] = base <= 10 ? 'e' : '@'; tb[len - 2] = '-'; }
        tb[len] = ' '; tb[len + 1] = 'x'; tb[len + 2] = 0;
        FILE *fp = fmemopen(tb, (size_t) len + 2, "rb");
        size_t r = kind == 0 ? mpz_inp_str(Z[k % NV], fp, base) : kind == 1 ? mpq_inp_str(Q[k % NQ], fp, base) : mpf_inp_str(F[k % NF], fp, base);
        fclose(fp);
        if (r != (size_t) len) { ok = 0; snprintf(why, sizeof why, "INP-STR-RETURN-%d-len-%ld-got-%lu", kind, len, (unsigned long) r); break; }
        if (!all_redzones_ok()) { ok = 0; snprintf(why, sizeof why, "REDZONE-after-inp_str-%d-len-%ld", kind, len); break; }
      }
      i += 6; }
    else if (!strcmp(op, "zout_raw")) {
      int k = (int)arg_l(argv[i+1]);
      if (zl[k]) { char *mb = NULL; size_t ml = 0; FILE *fp = open_memstream(&mb, &ml); size_t w = mpz_out_raw(fp, Z[k]); fclose(fp);
        if (w != ml) { ok = 0; snprintf(why, sizeof why, "OUT_RAW-COUNT"); } free(mb); }
      i += 2; }
    else if (!strcmp(op, "zlimbs")) {            /* limbs_write n, fill, limbs_finish */
      int k = (int)arg_l(argv[i+1]); mp_size_t n = arg_l(argv[i+2]); unsigned long fill = arg_ul(argv[i+3]);
      if (zl[k] && n >= 1) { mp_ptr p = mpz_limbs_write(Z[k], n); for (mp_size_t j = 0; j < n; j++) p[j] = fill + (unsigned long)j; mpz_limbs_finish(Z[k], (fill & 1) ? -n : n); }
      i += 4; }
    else if (!strcmp(op, "call")) {              /* call fname objidx... scalars... */
      const fdesc *fd = NULL;
      for (const fdesc *p = alias_table; p->name; p++) if (!strcmp(p->name, argv[i+1])) { fd = p; break; }
      if (!fd) { ok = 0; snprintf(why, sizeof why, "NOFUNC"); break; }
      void *po[8]; unsigned long sc[8]; double dv[8]; int no = 0, ns = 0, j = i + 2, live = 1;
      for (const char *k = fd->kinds; *k; k++) {
        if (*k == 'Z' || *k == 'z') { int x = (int)arg_l(argv[j++]); if (!zl[x]) live = 0; po[no++] = Z[x];
              if (zl[x] && ABSIZ(Z[x]) > 1500) mpz_tdiv_r_2exp(Z[x], Z[x], 64 * 40 + 7);   /* keep histories bounded */
              if (*k == 'Z' && zl[x]) prep(Z[x], mode); }
        else if (*k == 'Q' || *k == 'q') { int x = (int)arg_l(argv[j++]); if (!ql[x]) live = 0; po[no++] = Q[x];
              if (*k == 'Q' && ql[x]) { prep(mpq_numref(Q[x]), mode); prep(mpq_denref(Q[x]), mode); } }
        else if (*k == 'F' || *k == 'f') { int x = (int)arg_l(argv[j++]); if (!fl[x]) live = 0; po[no++] = F[x]; }
        else { sc[ns] = arg_ul(argv[j]); dv[ns] = (double)arg_l(argv[j]); ns++; j++; }
      }
      unsigned long r; double dr;
      if (live) fd->th(po, sc, dv, &r, &dr);
      i = j; }
    else { ok = 0; snprintf(why, sizeof why, "BADOP-%s", op); break; }
    if (ok && !pool_check()) ok = 0;
  }
  /* final values */
  if (ok) {
    FILE *ms = open_memstream(outp, outn);
    for (int k = 0; k < NV; k++) if (zl[k]) { fprintf(ms, "z%d=", k); if (SIZ(Z[k]) < 0) fputc('-', ms); for (mp_size_t t = ABSIZ(Z[k]) - 1; t >= 0; t--) fprintf(ms, "%016lx", PTR(Z[k])[t]); fputc(';', ms); }
    for (int k = 0; k < NQ; k++) if (ql[k]) { fprintf(ms, "q%d=%ld/", k, (long)SIZ(mpq_numref(Q[k]))); for (mp_size_t t = ABSIZ(mpq_numref(Q[k])) - 1; t >= 0; t--) fprintf(ms, "%016lx", PTR(mpq_numref(Q[k]))[t]);
                                          fputc('/', ms); for (mp_size_t t = ABSIZ(mpq_denref(Q[k])) - 1; t >= 0; t--) fprintf(ms, "%016lx", PTR(mpq_denref(Q[k]))[t]); fputc(';', ms); }
    for (int k = 0; k < NF; k++) if (fl[k]) { fprintf(ms, "f%d=%ld@%ld:", k, (long)SIZ(F[k]), (long)EXP(F[k])); for (mp_size_t t = ABSIZ(F[k]) - 1; t >= 0; t--) fprintf(ms, "%016lx", PTR(F[k])[t]); fputc(';', ms); }
    fclose(ms);
  }
  for (int k = 0; k < NV; k++) if (zl[k]) { mpz_clear(Z[k]); zl[k] = 0; }
  for (int k = 0; k < NQ; k++) if (ql[k]) { mpq_clear(Q[k]); ql[k] = 0; }
  for (int k = 0; k < NF; k++) if (fl[k]) { mpf_clear(F[k]); fl[k] = 0; }
  return ok;
}

static void op_histA(int argc, char **argv)
{
  long live0 = live_blocks;
  char *o[3] = { NULL, NULL, NULL }; size_t on[3] = { 0, 0, 0 };
  int nmodes = (int)arg_l(argv[1]);        /* 1: plain only; 3: plain, pre-shrunk, pre-grown */
  int bad = 0;
  for (int m = 0; m < nmodes && !bad; m++) {
    why[0] = 0;
    if (!run_hist(argc, argv, m, &o[m], &on[m])) { bad = 1; break; }
    if (live_blocks != live0) { bad = 1; snprintf(why, sizeof why, "LEAK-%ld-blocks-mode%d", live_blocks - live0, m); break; }
    if (m > 0 && (on[m] != on[0] || memcmp(o[m], o[0], on[0]) != 0)) { bad = 1; snprintf(why, sizeof why, "VALUE-DEPENDS-ON-ALLOCATION-mode%d", m); }
  }
  outl(bad); if (bad) outs(why);
  for (int m = 0; m < 3; m++) free(o[m]);
}

const op_t ops_hist[] = { {"histF", op_histF}, {"histA", op_histA}, {NULL, NULL} };
