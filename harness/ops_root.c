/* ops_root.c — C09: integer roots, remainders, perfect power tests. */
#include "common.h"
static void op_sqrt(int argc, char **argv)
{ (void)argc; mpz_t u, s; parse_z(argv[1], u); mpz_init(s); mpz_realloc2(s, 1);
  mpz_ptr ps = arg_l(argv[2]) ? u : s; mpz_sqrt(ps, u); out_z(ps); mpz_clear(u); mpz_clear(s); }
static void op_sqrtrem(int argc, char **argv)
{ (void)argc; mpz_t u, s, r; parse_z(argv[1], u); mpz_init(s); mpz_init(r); mpz_realloc2(s, 1); mpz_realloc2(r, 1);
  int al = (int)arg_l(argv[2]); mpz_ptr ps = al == 1 ? u : s, pr = al == 2 ? u : r;
  mpz_sqrtrem(ps, pr, u); out_z(ps); out_z(pr); mpz_clear(u); mpz_clear(s); mpz_clear(r); }
static void op_root(int argc, char **argv)
{ (void)argc; mpz_t u, s; parse_z(argv[1], u); mpz_init(s); mpz_realloc2(s, 1);
  mpz_ptr ps = arg_l(argv[3]) ? u : s; int ex = mpz_root(ps, u, arg_ul(argv[2])); out_z(ps); outl(ex != 0); mpz_clear(u); mpz_clear(s); }
static void op_nthroot(int argc, char **argv)
{ (void)argc; mpz_t u, s; parse_z(argv[1], u); mpz_init(s); mpz_realloc2(s, 1);
  mpz_ptr ps = arg_l(argv[3]) ? u : s; mpz_nthroot(ps, u, arg_ul(argv[2])); out_z(ps); mpz_clear(u); mpz_clear(s); }
static void op_rootrem(int argc, char **argv)
{ (void)argc; mpz_t u, s, r; parse_z(argv[1], u); mpz_init(s); mpz_init(r); mpz_realloc2(s, 1); mpz_realloc2(r, 1);
  int al = (int)arg_l(argv[3]); mpz_ptr ps = al == 1 ? u : s, pr = al == 2 ? u : r;
  mpz_rootrem(ps, pr, u, arg_ul(argv[2])); out_z(ps); out_z(pr); mpz_clear(u); mpz_clear(s); mpz_clear(r); }
static void op_psq(int argc, char **argv)
{ (void)argc; mpz_t u; parse_z(argv[1], u); outl(mpz_perfect_square_p(u) != 0);
  if (SIZ(u) > 0) outl(mpn_perfect_square_p(PTR(u), SIZ(u)) != 0); else outl(SIZ(u) == 0);
  mpz_clear(u); }
static void op_ppow(int argc, char **argv)
{ (void)argc; mpz_t u; parse_z(argv[1], u); outl(mpz_perfect_power_p(u) != 0); mpz_clear(u); }
/* mpn_sqrtrem nn X mode (0: rp given, 1: rp NULL) : root, remainder (or its non-zero flag) */
static void op_nsqrtrem(int argc, char **argv)
{ (void)argc; mp_size_t nn = arg_l(argv[1]); int mode = (int)arg_l(argv[3]);
  mp_ptr np = gbuf_alloc(nn), sp = gbuf_alloc((nn + 1) / 2), rp = gbuf_alloc(nn);
  parse_limbs(argv[2], np, nn);
  mp_size_t rn = mpn_sqrtrem(sp, mode ? NULL : rp, np, nn);
  out_limbs(sp, (nn + 1) / 2);
  if (mode) outl(rn != 0); else out_limbs(rp, rn);
  if (!gbuf_ok(np, nn) || !gbuf_ok(sp, (nn + 1) / 2) || !gbuf_ok(rp, nn)) outs("REDZONE");
  gbuf_free(np); gbuf_free(sp); gbuf_free(rp); }
const op_t ops_root[] = {
  {"mpz_sqrt", op_sqrt}, {"mpz_sqrtrem", op_sqrtrem}, {"mpz_root", op_root}, {"mpz_nthroot", op_nthroot}, {"mpz_rootrem", op_rootrem},
  {"mpz_perfect_square_p", op_psq}, {"mpz_perfect_power_p", op_ppow}, {"mpn_sqrtrem", op_nsqrtrem}, {"mpn_sqrtrem_c", op_nsqrtrem},
  {NULL, NULL}
};
