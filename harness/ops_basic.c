/* ops_basic.c — C03 operations: mpn add/sub/neg/shift/copy/cmp with every permitted
   overlap, and the mpz functions built on them with every alias pattern. */
#include "common.h"

/* arena: one guarded buffer big enough for the operands at chosen offsets */
static __thread mp_ptr A; static __thread mp_size_t AN;
static void arena(mp_size_t n) { AN = n; A = gbuf_alloc(n); }
static void arena_done(void) { if (!gbuf_ok(A, AN)) outs("REDZONE"); gbuf_free(A); }

/* mpn_add_n / mpn_sub_n:  op n U V ovl   (ovl 0 separate, 1 rp=up, 2 rp=vp, 3 rp=up=vp) */
static void do_aors_n(int argc, char **argv, int is_sub)
{
  (void)argc;
  mp_size_t n = arg_l(argv[1]); int ovl = (int)arg_l(argv[4]);
  arena(3*n);
  mp_ptr up = A, vp = A + n, rp = A + 2*n;
  parse_limbs(argv[2], up, n); parse_limbs(argv[3], vp, n);
  if (ovl == 1) rp = up; else if (ovl == 2) rp = vp; else if (ovl == 3) { vp = up; rp = up; }
  mp_ptr su = gbuf_alloc(n), sv = gbuf_alloc(n);
  MPN_COPY(su, up, n); MPN_COPY(sv, vp, n);
  mp_limb_t c = is_sub ? mpn_sub_n(rp, up, vp, n) : mpn_add_n(rp, up, vp, n);
  out_limbs(rp, n); outul(c);
  if (rp != up && mpn_cmp(su, up, n) != 0) outs("SRCMOD");
  if (rp != vp && mpn_cmp(sv, vp, n) != 0) outs("SRCMOD");
  gbuf_free(su); gbuf_free(sv);
  arena_done();
}
static void op_add_n(int c, char **v) { do_aors_n(c, v, 0); }
static void op_sub_n(int c, char **v) { do_aors_n(c, v, 1); }

/* mpn_add_1 / mpn_sub_1:  op n U v ovl  (ovl 0 separate, 1 in place) */
static void do_aors_1(int argc, char **argv, int is_sub)
{
  (void)argc;
  mp_size_t n = arg_l(argv[1]); mp_limb_t v = arg_ul(argv[3]); int ovl = (int)arg_l(argv[4]);
  arena(2*n);
  mp_ptr up = A, rp = ovl ? A : A + n;
  parse_limbs(argv[2], up, n);
  mp_ptr su = gbuf_alloc(n); MPN_COPY(su, up, n);
  mp_limb_t c = is_sub ? mpn_sub_1(rp, up, n, v) : mpn_add_1(rp, up, n, v);
  out_limbs(rp, n); outul(c);
  if (rp != up && mpn_cmp(su, up, n) != 0) outs("SRCMOD");
  gbuf_free(su); arena_done();
}
static void op_add_1(int c, char **v) { do_aors_1(c, v, 0); }
static void op_sub_1(int c, char **v) { do_aors_1(c, v, 1); }

/* mpn_add / mpn_sub:  op xn X yn Y ovl  (0 separate, 1 rp=xp, 2 rp=yp (low part), ) */
static void do_aors(int argc, char **argv, int is_sub)
{
  (void)argc;
  mp_size_t xn = arg_l(argv[1]), yn = arg_l(argv[3]); int ovl = (int)arg_l(argv[5]);
  arena(3*xn);
  mp_ptr xp = A, yp = A + xn, rp = A + 2*xn;
  parse_limbs(argv[2], xp, xn); parse_limbs(argv[4], yp, yn);
  if (ovl == 1) rp = xp; else if (ovl == 2 && xn == yn) rp = yp;
  mp_ptr sx = gbuf_alloc(xn), sy = gbuf_alloc(yn ? yn : 1);
  MPN_COPY(sx, xp, xn); MPN_COPY(sy, yp, yn);
  mp_limb_t c = is_sub ? mpn_sub(rp, xp, xn, yp, yn) : mpn_add(rp, xp, xn, yp, yn);
  out_limbs(rp, xn); outul(c);
  if (rp != xp && mpn_cmp(sx, xp, xn) != 0) outs("SRCMOD");
  if (rp != yp && yn && mpn_cmp(sy, yp, yn) != 0) outs("SRCMOD");
  gbuf_free(sx); gbuf_free(sy); arena_done();
}
static void op_add(int c, char **v) { do_aors(c, v, 0); }
static void op_sub(int c, char **v) { do_aors(c, v, 1); }

/* mpn_neg_n / mpn_com_n:  op n U ovl */
static void op_neg_n(int argc, char **argv)
{
  (void)argc;
  mp_size_t n = arg_l(argv[1]); int ovl = (int)arg_l(argv[3]);
  arena(2*n); mp_ptr up = A, rp = ovl ? A : A + n;
  parse_limbs(argv[2], up, n);
  mp_limb_t c = mpn_neg_n(rp, up, n);
  out_limbs(rp, n); outul(c); arena_done();
}
static void op_com_n(int argc, char **argv)
{
  (void)argc;
  mp_size_t n = arg_l(argv[1]); int ovl = (int)arg_l(argv[3]);
  arena(2*n); mp_ptr up = A, rp = ovl ? A : A + n;
  parse_limbs(argv[2], up, n);
  mpn_com_n(rp, up, n);
  out_limbs(rp, n); arena_done();
}

/* mpn_lshift n U cnt off : rp = up + off (0 <= off <= n), off = -1 means separate.
   mpn_rshift n U cnt off : rp = up - off. */
static void do_shift(int argc, char **argv, int right)
{
  (void)argc;
  mp_size_t n = arg_l(argv[1]); unsigned cnt = (unsigned)arg_l(argv[3]); long off = arg_l(argv[4]);
  arena(4*n + 2);
  mp_ptr up = A + n + 1, rp;
  if (off < 0) rp = A + 3*n + 1; else rp = right ? up - off : up + off;
  parse_limbs(argv[2], up, n);
  mp_limb_t c = right ? mpn_rshift(rp, up, n, cnt) : mpn_lshift(rp, up, n, cnt);
  out_limbs(rp, n); outul(c);
  /* limbs of the arena outside [rp,rp+n) and outside the source must be untouched */
  for (mp_size_t i = 0; i < AN; i++) {
    mp_ptr q = A + i;
    if (q >= rp && q < rp + n) continue;
    if (q >= up && q < up + n) continue;
    if (*q != 0xDEADBEEFDEADBEEFUL) { outs("STRAY-WRITE"); break; }
  }
  arena_done();
}
static void op_lshift(int c, char **v) { do_shift(c, v, 0); }
static void op_rshift(int c, char **v) { do_shift(c, v, 1); }

/* mpn_copyi n U off (rp = up - off), mpn_copyd n U off (rp = up + off); off<0 separate */
static void do_copy(int argc, char **argv, int decr)
{
  (void)argc;
  mp_size_t n = arg_l(argv[1]); long off = arg_l(argv[3]);
  arena(4*n + 2);
  mp_ptr up = A + n + 1, rp;
  if (off < 0) rp = A + 3*n + 1; else rp = decr ? up + off : up - off;
  parse_limbs(argv[2], up, n);
  if (decr) mpn_copyd(rp, up, n); else mpn_copyi(rp, up, n);
  out_limbs(rp, n);
  for (mp_size_t i = 0; i < AN; i++) {
    mp_ptr q = A + i;
    if (q >= rp && q < rp + n) continue;
    if (q >= up && q < up + n) continue;
    if (*q != 0xDEADBEEFDEADBEEFUL) { outs("STRAY-WRITE"); break; }
  }
  arena_done();
}
static void op_copyi(int c, char **v) { do_copy(c, v, 0); }
static void op_copyd(int c, char **v) { do_copy(c, v, 1); }

static void op_zero(int argc, char **argv)
{
  (void)argc; mp_size_t n = arg_l(argv[1]);
  arena(n); mpn_zero(A, n); out_limbs(A, n); arena_done();
}
static void op_cmp(int argc, char **argv)
{
  (void)argc; mp_size_t n = arg_l(argv[1]);
  arena(2*n); parse_limbs(argv[2], A, n); parse_limbs(argv[3], A + n, n);
  int r = mpn_cmp(A, A + n, n);
  outl(r < 0 ? -1 : r > 0); arena_done();
}
static void op_zero_p(int argc, char **argv)
{
  (void)argc; mp_size_t n = arg_l(argv[1]);
  arena(n); parse_limbs(argv[2], A, n);
  outl(mpn_zero_p(A, n) != 0); arena_done();
}

/* ---- mpz binary ops:  op U V alias   (0 none, 1 w=u, 2 w=v, 3 u=v, 4 w=u=v);
   the destination starts with the smallest legal allocation so the call must size it. */
typedef void (*zfn3)(mpz_ptr, mpz_srcptr, mpz_srcptr);
static void do_z3(char **argv, zfn3 f)
{
  mpz_t u, v, w, u0, v0; int al = (int)arg_l(argv[3]);
  parse_z(argv[1], u); parse_z(argv[2], v); mpz_init(w);
  mpz_init_set(u0, u); mpz_init_set(v0, v);
  mpz_realloc2(w, 1);
  mpz_ptr pu = u, pv = v, pw = w;
  if (al == 1) pw = u; else if (al == 2) pw = v; else if (al == 3) pv = u; else if (al == 4) { pv = u; pw = u; }
  f(pw, pu, pv);
  out_z(pw);
  if (pw != u && mpz_cmp(u, u0) != 0) outs("SRCMOD");
  if (pw != v && pv == v && mpz_cmp(v, v0) != 0) outs("SRCMOD");
  mpz_clear(u); mpz_clear(v); mpz_clear(w); mpz_clear(u0); mpz_clear(v0);
}
static void op_zadd(int c, char **v) { (void)c; do_z3(v, mpz_add); }
static void op_zsub(int c, char **v) { (void)c; do_z3(v, mpz_sub); }

/* mpz op with an unsigned long:  op U v alias (0 none, 1 w=u) */
typedef void (*zfn_ui)(mpz_ptr, mpz_srcptr, mpir_ui);
static void do_zui(char **argv, zfn_ui f)
{
  mpz_t u, w, u0; int al = (int)arg_l(argv[3]); mpir_ui v = arg_ul(argv[2]);
  parse_z(argv[1], u); mpz_init(w); mpz_init_set(u0, u); mpz_realloc2(w, 1);
  mpz_ptr pw = al ? u : w;
  f(pw, u, v);
  out_z(pw);
  if (pw != u && mpz_cmp(u, u0) != 0) outs("SRCMOD");
  mpz_clear(u); mpz_clear(w); mpz_clear(u0);
}
static void op_zadd_ui(int c, char **v) { (void)c; do_zui(v, mpz_add_ui); }
static void op_zsub_ui(int c, char **v) { (void)c; do_zui(v, mpz_sub_ui); }
static void zuisub(mpz_ptr w, mpz_srcptr u, mpir_ui v) { mpz_ui_sub(w, v, u); }
static void op_zui_sub(int c, char **v) { (void)c; do_zui(v, zuisub); }
/* mpz_mul_2exp_big U CNT : see ApiBasic.v */
static void op_zmul_2exp_big(int argc, char **argv)
{ (void)argc; mpz_t u, r, t; parse_z(argv[1], u); mpir_ui cnt = arg_ul(argv[2]); mpz_init(r); mpz_init(t);
  mpz_mul_2exp(r, u, cnt);
  outul(mpz_sizeinbase(r, 2)); if (mpz_sgn(r)) outul(mpz_scan1(r, 0)); else outl(-1); outl(mpz_sgn(r));
  mpz_tdiv_q_2exp(t, r, cnt); outl(mpz_cmp(t, u) == 0);
  if (!z_wf(r)) outs("BADFORMAT");
  mpz_clear(u); mpz_clear(r); mpz_clear(t); }
static void zmul2exp(mpz_ptr w, mpz_srcptr u, mpir_ui v) { mpz_mul_2exp(w, u, v); }
static void op_zmul_2exp(int c, char **v) { (void)c; do_zui(v, zmul2exp); }

/* unary:  op U alias */
typedef void (*zfn2)(mpz_ptr, mpz_srcptr);
static void do_z2(char **argv, zfn2 f)
{
  mpz_t u, w, u0; int al = (int)arg_l(argv[2]);
  parse_z(argv[1], u); mpz_init(w); mpz_init_set(u0, u); mpz_realloc2(w, 1);
  mpz_ptr pw = al ? u : w;
  f(pw, u);
  out_z(pw);
  if (pw != u && mpz_cmp(u, u0) != 0) outs("SRCMOD");
  mpz_clear(u); mpz_clear(w); mpz_clear(u0);
}
static void op_zneg(int c, char **v) { (void)c; do_z2(v, mpz_neg); }
static void op_zabs(int c, char **v) { (void)c; do_z2(v, mpz_abs); }
static void op_zset(int c, char **v) { (void)c; do_z2(v, mpz_set); }
static void op_zswap(int argc, char **argv)
{
  (void)argc; mpz_t u, v; parse_z(argv[1], u); parse_z(argv[2], v);
  mpz_swap(u, v); out_z(u); out_z(v); mpz_clear(u); mpz_clear(v);
}

const op_t ops_basic[] = {
  {"mpn_add_n", op_add_n}, {"mpn_sub_n", op_sub_n}, {"mpn_add_1", op_add_1}, {"mpn_sub_1", op_sub_1},
  {"mpn_add", op_add}, {"mpn_sub", op_sub}, {"mpn_neg_n", op_neg_n}, {"mpn_com_n", op_com_n},
  {"mpn_lshift", op_lshift}, {"mpn_rshift", op_rshift}, {"mpn_copyi", op_copyi}, {"mpn_copyd", op_copyd},
  {"mpn_zero", op_zero}, {"mpn_cmp", op_cmp}, {"mpn_zero_p", op_zero_p},
  {"mpz_add", op_zadd}, {"mpz_sub", op_zsub}, {"mpz_add_ui", op_zadd_ui}, {"mpz_sub_ui", op_zsub_ui},
  {"mpz_ui_sub", op_zui_sub}, {"mpz_mul_2exp", op_zmul_2exp}, {"mpz_mul_2exp_big", op_zmul_2exp_big}, {"mpz_neg", op_zneg}, {"mpz_abs", op_zabs},
  {"mpz_set", op_zset}, {"mpz_swap", op_zswap},
  {NULL, NULL}
};
