// xdrv_main.cc — C20: driver for the C++ class interface.  Same line protocol as drv.c (hex numbers, x:bytes).
//   cxx <tree> <dest> A B C D l u xh [code...]      evaluate generated expression <tree> (xdrv_gen.cc), assign as <dest> says; prints a b c d
//   cxxq <tree> <dest> An Ad Bn Bd Cn Cd Dn Dd l u xh cop [code...]   the same for mpq_class expression trees
//   cxx_cmp A B l u xh                               comparison operators and cmp / sgn
//   cxx_conv X base                                  string constructor, get_str, get_si/get_ui, fits_*
//   cxx_io X flags width                             operator<< with ios flags, then operator>> of what was written
#include <cstdio>
#include <cstring>
#include <cstdlib>
#include <string>
#include <sstream>
#include <iostream>
#include <vector>
#include <csignal>
#include <unistd.h>
#include "mpirxx.h"

typedef void (*fn_t)(mpz_class &, mpz_class &, mpz_class &, mpz_class &, long, unsigned long, double, int);
extern fn_t fns[]; extern int nfns;
typedef void (*qfn_t)(mpq_class &, mpq_class &, mpq_class &, mpq_class &, long, unsigned long, double, int);
extern qfn_t qfns[]; extern int nqfns;

static std::string out;
static void outs(const std::string &s) { out += ' '; out += s; }
static std::string hexz(const mpz_class &z) { std::string s = z.get_str(16); return s; }    // "-1f": the protocol's own format
static void outz(const mpz_class &z) { outs(hexz(z)); }
static void outl(long v) { char b[40]; if (v < 0) snprintf(b, sizeof b, "-%lx", (unsigned long)(-(unsigned long)v)); else snprintf(b, sizeof b, "%lx", (unsigned long)v); outs(b); }
static void outbytes(const std::string &s) { std::string r = "x:"; char b[4]; for (size_t i = 0; i < s.size(); i++) { snprintf(b, sizeof b, "%02x", (unsigned char)s[i]); r += b; } outs(r); }
static mpz_class argz(const char *s) { mpz_class z; z.set_str(s, 16); return z; }
static long argl(const char *s) { mpz_class z = argz(s); return z.fits_slong_p() ? z.get_si() : (long)z.get_ui(); }
static unsigned long argul(const char *s) { mpz_class z = argz(s); return mpz_get_ui(z.get_mpz_t()); }
static std::string unhex(const char *s) { std::string r; if (s[0] == 'x' && s[1] == ':') s += 2; while (s[0] && s[1]) { unsigned v; sscanf(s, "%2x", &v); r += (char)v; s += 2; } return r; }
static long cur = 0;
static void on_signal(int sig) { printf("%ld%s CRASH-SIGNAL %d\n", cur, out.c_str(), sig); fflush(stdout); _exit(100 + sig); }

int main()
{
  signal(SIGSEGV, on_signal); signal(SIGFPE, on_signal); signal(SIGABRT, on_signal); signal(SIGALRM, on_signal);
  char *line = NULL; size_t cap = 0; ssize_t len;
  while ((len = getline(&line, &cap, stdin)) >= 0) {
    cur++; out.clear();
    while (len > 0 && (line[len-1] == '\n' || line[len-1] == '\r')) line[--len] = 0;
    std::vector<char *> av; for (char *t = strtok(line, " \t"); t; t = strtok(NULL, " \t")) av.push_back(t);
    if (av.empty()) continue;
    alarm(60);
    std::string op = av[0];
    if (op == "cxx" && av.size() >= 11) {
      int tree = (int)argl(av[1]), dest = (int)argl(av[2]);
      mpz_class a = argz(av[3]), b = argz(av[4]), c = argz(av[5]), d = argz(av[6]);
      long l = argl(av[7]); unsigned long u = argul(av[8]); double x = mpz_class(argz(av[9])).get_d() / 2.0;
      if (tree < 0 || tree >= nfns) outs("NO-SUCH-TREE");
      else { fns[tree](a, b, c, d, l, u, x, dest); outz(a); outz(b); outz(c); outz(d); }
    } else if (op == "cxxq" && av.size() >= 15) {
      int tree = (int)argl(av[1]), dest = (int)argl(av[2]);
      mpq_class q[4];
      for (int i = 0; i < 4; i++) { q[i].get_num() = argz(av[3 + 2 * i]); q[i].get_den() = argz(av[4 + 2 * i]); }
      long l = argl(av[11]); unsigned long u = argul(av[12]); double x = mpz_class(argz(av[13])).get_d() / 2.0;
      if (tree < 0 || tree >= nqfns) outs("NO-SUCH-TREE");
      else { qfns[tree](q[0], q[1], q[2], q[3], l, u, x, dest); for (int i = 0; i < 4; i++) { outz(q[i].get_num()); outz(q[i].get_den()); } }
    } else if (op == "cxx_cmp" && av.size() >= 6) {
      mpz_class a = argz(av[1]), b = argz(av[2]); long l = argl(av[3]); unsigned long u = argul(av[4]); double x = mpz_class(argz(av[5])).get_d() / 2.0;
      outl(a == b); outl(a != b); outl(a < b); outl(a <= b); outl(a > b); outl(a >= b); outl(cmp(a, b) < 0 ? -1 : cmp(a, b) > 0); outl(sgn(a));
      outl(a == l); outl(a < l); outl(a > l); outl(l < a); outl(l == a); outl(a <= l); outl(cmp(a, l) < 0 ? -1 : cmp(a, l) > 0);
      outl(a == u); outl(a < u); outl(u < a); outl(cmp(u, a) < 0 ? -1 : cmp(u, a) > 0);
      outl(a == x); outl(a < x); outl(x < a); outl(a >= x); outl(cmp(a, x) < 0 ? -1 : cmp(a, x) > 0);
      outl((a + b) == (b + a)); outl((a * 2) > a); outl((a - b) < l);
    } else if (op == "cxx_conv" && av.size() >= 3) {
      mpz_class v = argz(av[1]); int base = (int)argl(av[2]);
      std::string s = v.get_str(base); outbytes(s);
      mpz_class w(s, base < 0 ? -base : base); outz(w);
      mpz_class w2; int rc = w2.set_str(s.c_str(), base < 0 ? -base : base); outl(rc); outz(w2);
      outl(v.fits_slong_p()); outl(v.fits_ulong_p()); outl(v.fits_sint_p()); outl(v.fits_uint_p()); outl(v.fits_sshort_p()); outl(v.fits_ushort_p());
      mpz_class lo; lo = v.get_ui(); outz(lo);
      if (v.fits_slong_p()) { mpz_class si; si = v.get_si(); outz(si); mpz_class fromsi(v.get_si()); outz(fromsi); } else { outs("0"); outs("0"); }
    } else if (op == "cxx_io" && av.size() >= 4) {
      mpz_class v = argz(av[1]); long fl = argl(av[2]); long w = argl(av[3]);
      std::ostringstream os;
      if (fl & 1) os << std::hex; else if (fl & 2) os << std::oct;
      if (fl & 4) os << std::showbase; if (fl & 8) os << std::showpos; if (fl & 16) os << std::left; else if (fl & 32) os << std::internal;
      if (fl & 64) os << std::uppercase;
      os.fill('*'); os.width(w);
      os << v;
      outbytes(os.str());
      // read back what a plain (unpadded) insertion writes, with the matching base
      std::ostringstream o2; if (fl & 1) o2 << std::hex; else if (fl & 2) o2 << std::oct; o2 << v << " 5";
      std::istringstream is(o2.str()); if (fl & 1) is >> std::hex; else if (fl & 2) is >> std::oct;
      mpz_class r, r2; is >> r >> r2; outz(r); outl(is.fail() ? 1 : 0); outz(r2);
    } else outs("UNKNOWN-OP");
    alarm(0);
    printf("%ld%s\n", cur, out.c_str());
  }
  fflush(stdout);
  return 0;
}
