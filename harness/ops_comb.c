/* ops_comb.c — C16: factorial, binomial, Fibonacci/Lucas, remove, primality. */
#include "common.h"
void out_residues(mp_srcptr p, mp_size_t n);

static void op_fib(int argc, char **argv)
{ (void)argc; mpir_ui n = arg_ul(argv[1]); mpz_t f, f1, g; mpz_init(f); mpz_init(f1); mpz_init(g);
  mpz_realloc2(f, 1); mpz_realloc2(f1, 1); mpz_realloc2(g, 1);
  mpz_fib2_ui(f, f1, n); mpz_fib_ui(g, n); out_zv(f); out_zv(f1); if (mpz_cmp(f, g)) outs("FIB_UI-DIFFERS");
  if (!z_wf(f) || !z_wf(f1) || !z_wf(g)) outs("BADFORMAT");
  mpz_clear(f); mpz_clear(f1); mpz_clear(g); }
static void op_luc(int argc, char **argv)
{ (void)argc; mpir_ui n = arg_ul(argv[1]); mpz_t l, l1, g; mpz_init(l); mpz_init(l1); mpz_init(g);
  mpz_realloc2(l, 1); mpz_realloc2(l1, 1); mpz_realloc2(g, 1);
  mpz_lucnum2_ui(l, l1, n); mpz_lucnum_ui(g, n); out_zv(l); out_zv(l1); if (mpz_cmp(l, g)) outs("LUCNUM_UI-DIFFERS");
  mpz_clear(l); mpz_clear(l1); mpz_clear(g); }
/* fac n big / 2fac / mfac n m / primorial n : exact value or residues */
static void out_val(mpz_srcptr r, int big) { if (big) { outl(SIZ(r) < 0 ? -1 : SIZ(r) > 0); out_residues(PTR(r), ABSIZ(r)); } else out_zv(r); if (!z_wf(r)) outs("BADFORMAT"); }
static void op_fac(int argc, char **argv)
{ (void)argc; mpz_t r; mpz_init(r); mpz_realloc2(r, 1); mpz_fac_ui(r, arg_ul(argv[1])); out_val(r, (int)arg_l(argv[2])); mpz_clear(r); }
static void op_2fac(int argc, char **argv)
{ (void)argc; mpz_t r; mpz_init(r); mpz_realloc2(r, 1); mpz_2fac_ui(r, arg_ul(argv[1])); out_val(r, (int)arg_l(argv[2])); mpz_clear(r); }
static void op_mfac(int argc, char **argv)
{ (void)argc; mpz_t r; mpz_init(r); mpz_realloc2(r, 1); mpz_mfac_uiui(r, arg_ul(argv[1]), arg_ul(argv[2])); out_val(r, (int)arg_l(argv[3])); mpz_clear(r); }
static void op_primorial(int argc, char **argv)
{ (void)argc; mpz_t r; mpz_init(r); mpz_realloc2(r, 1); mpz_primorial_ui(r, arg_ul(argv[1])); out_val(r, (int)arg_l(argv[2])); mpz_clear(r); }
static void op_bin_uiui(int argc, char **argv)
{ (void)argc; mpz_t r; mpz_init(r); mpz_realloc2(r, 1); mpz_bin_uiui(r, arg_ul(argv[1]), arg_ul(argv[2])); out_val(r, (int)arg_l(argv[3])); mpz_clear(r); }
static void op_bin_ui(int argc, char **argv)
{ (void)argc; mpz_t n, r; parse_z(argv[1], n); mpz_init(r); mpz_realloc2(r, 1);
  mpz_ptr pr = arg_l(argv[3]) ? n : r; mpz_bin_ui(pr, n, arg_ul(argv[2])); out_zv(pr); if (!z_wf(pr)) outs("BADFORMAT"); mpz_clear(n); mpz_clear(r); }
static void op_remove(int argc, char **argv)
{ (void)argc; mpz_t s, f, r; parse_z(argv[1], s); parse_z(argv[2], f); mpz_init(r); mpz_realloc2(r, 1);
  int al = (int)arg_l(argv[3]); mpz_ptr pr = al == 1 ? s : al == 2 ? f : r;
  mp_bitcnt_t k = mpz_remove(pr, s, f); out_zv(pr); outul(k); mpz_clear(s); mpz_clear(f); mpz_clear(r); }
/* primality: prints for each function (result != 0) and (result == 2) */
static void op_prime(int argc, char **argv)
{ (void)argc; mpz_t n; parse_z(argv[1], n); int reps = (int)arg_l(argv[2]);
  gmp_randstate_t rs; gmp_randinit_default(rs); gmp_randseed_ui(rs, arg_ul(argv[3]));
  int a = mpz_probab_prime_p(n, reps), b = mpz_probable_prime_p(n, rs, reps, 0), c = mpz_likely_prime_p(n, rs, 0), d = mpz_miller_rabin(n, reps, rs);
  outl(a != 0); outl(a == 2); outl(b != 0); outl(b == 2); outl(c != 0); outl(c == 2); outl(d != 0); outl(d == 2);
  gmp_randclear(rs); mpz_clear(n); }
static void op_nextprime(int argc, char **argv)
{ (void)argc; mpz_t n, r, c; parse_z(argv[1], n); mpz_init(r); mpz_init(c); mpz_realloc2(r, 1);
  gmp_randstate_t rs; gmp_randinit_default(rs); gmp_randseed_ui(rs, 7);
  mpz_nextprime(r, n); mpz_next_prime_candidate(c, n, rs); out_zv(r); out_zv(c);
  gmp_randclear(rs); mpz_clear(n); mpz_clear(r); mpz_clear(c); }
const op_t ops_comb[] = {
  {"mpz_fib2_ui", op_fib}, {"mpz_lucnum2_ui", op_luc}, {"mpz_fac_ui", op_fac}, {"mpz_2fac_ui", op_2fac}, {"mpz_mfac_uiui", op_mfac},
  {"mpz_primorial_ui", op_primorial}, {"mpz_bin_uiui", op_bin_uiui}, {"mpz_bin_ui", op_bin_ui}, {"mpz_remove", op_remove},
  {"mpz_prime", op_prime}, {"mpz_nextprime", op_nextprime},
  {NULL, NULL}
};
