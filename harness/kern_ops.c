/* kern_ops.c — C14: call one assembly kernel (or the portable C version, index of dir "generic-C") of an mpn routine.
   kern <routine> <kidx> args...   (numbers hex; operands given as values, lengths in limbs)
   Destinations have guard limbs and start with a canary pattern; sources are checked for modification. */
#include "common.h"
typedef struct { const char *routine; const char *dir; int idx; void *fn; } kern_t;
extern const kern_t kern_table[];

static mp_ptr mk(const char *hex, mp_size_t n) { mp_ptr p = gbuf_alloc(n > 0 ? n : 1); if (n > 0) parse_limbs(hex, p, n); return p; }
static mp_ptr mkout(mp_size_t n) { mp_ptr p = gbuf_alloc(n > 0 ? n : 1); for (mp_size_t i = 0; i < n; i++) p[i] = 0x5A5A5A5AA5A5A5A5UL + (mp_limb_t)i; return p; }
static int same(mp_srcptr a, const char *hex, mp_size_t n) { mp_ptr t = mk(hex, n); int r = n <= 0 || mpn_cmp(a, t, n) == 0; gbuf_free(t); return r; }
#define CHK(p, n) do { if (!gbuf_ok(p, (n) > 0 ? (n) : 1)) outs("REDZONE"); } while (0)
#define IS(s) (!strcmp(r, s))

typedef mp_limb_t (*f_rrrn)(mp_ptr, mp_srcptr, mp_srcptr, mp_size_t);
typedef mp_limb_t (*f_rrrrn)(mp_ptr, mp_srcptr, mp_srcptr, mp_srcptr, mp_size_t);
typedef mp_limb_t (*f_rrrrrn)(mp_ptr, mp_ptr, mp_srcptr, mp_srcptr, mp_size_t);
typedef mp_limb_t (*f_rrnl)(mp_ptr, mp_srcptr, mp_size_t, mp_limb_t);
typedef mp_limb_t (*f_rrnu)(mp_ptr, mp_srcptr, mp_size_t, unsigned);
typedef mp_limb_t (*f_rrrnu)(mp_ptr, mp_srcptr, mp_srcptr, mp_size_t, unsigned);
typedef mp_limb_t (*f_rrn)(mp_ptr, mp_srcptr, mp_size_t);
typedef mp_limb_t (*f_rn)(mp_ptr, mp_size_t);
typedef mp_limb_t (*f_rnl)(mp_ptr, mp_size_t, mp_limb_t);
typedef mp_limb_t (*f_sn)(mp_srcptr, mp_size_t);
typedef mp_limb_t (*f_ssn)(mp_srcptr, mp_srcptr, mp_size_t);
typedef void (*f_mulb)(mp_ptr, mp_srcptr, mp_size_t, mp_srcptr, mp_size_t);
typedef mp_limb_t (*f_rrnr)(mp_ptr, mp_srcptr, mp_size_t, mp_srcptr);
typedef void (*f_redc)(mp_ptr, mp_ptr, mp_srcptr, mp_size_t, mp_limb_t);
typedef mp_limb_t (*f_rrnll)(mp_ptr, mp_srcptr, mp_size_t, mp_limb_t, mp_limb_t);
typedef mp_limb_t (*f_snll)(mp_srcptr, mp_size_t, mp_limb_t, mp_limb_t);
typedef mp_limb_t (*f_snl)(mp_srcptr, mp_size_t, mp_limb_t);
typedef mp_limb_t (*f_qr1)(mp_ptr, mp_size_t, mp_srcptr, mp_size_t, mp_limb_t);
typedef mp_limb_t (*f_qr2)(mp_ptr, mp_ptr, mp_size_t, mp_srcptr);
typedef mp_limb_t (*f_dr2)(mp_ptr, mp_size_t, mp_ptr, mp_size_t, mp_srcptr);
typedef mp_limb_t (*f_rsh)(mp_ptr, mp_srcptr, mp_size_t, mp_limb_t, int, mp_limb_t);
typedef void (*f_mod1k)(mp_ptr, mp_srcptr, mp_size_t, mp_srcptr);
typedef mp_limb_t (*f_err1)(mp_ptr, mp_srcptr, mp_srcptr, mp_ptr, mp_srcptr, mp_size_t, mp_limb_t);
typedef mp_limb_t (*f_err2)(mp_ptr, mp_srcptr, mp_srcptr, mp_ptr, mp_srcptr, mp_srcptr, mp_size_t, mp_limb_t);
typedef void (*f_kara)(mp_ptr, mp_ptr, mp_size_t);

static void op_kern(int argc, char **argv)
{
  const char *r = argv[1]; int kidx = (int)arg_l(argv[2]); const kern_t *k = kern_table;
  while (k->routine && k->idx != kidx) k++;
  if (!k->routine || strcmp(k->routine, r)) { outs("NO-SUCH-KERNEL"); return; }
  void *fn = k->fn; char **a = argv + 3; (void)argc;
  if (IS("add_n") || IS("sub_n") || IS("addlsh1_n") || IS("sublsh1_n") || IS("rsh1add_n") || IS("rsh1sub_n") || IS("and_n") || IS("andn_n") || IS("ior_n") || IS("iorn_n")
      || IS("nand_n") || IS("nior_n") || IS("xor_n") || IS("xnor_n")) {
    /* n U V alias(0 separate, 1 rp=up, 2 rp=vp) */
    mp_size_t n = arg_l(a[0]); int al = (int)arg_l(a[3]); mp_ptr up = mk(a[1], n), vp = mk(a[2], n), rp = al == 1 ? up : al == 2 ? vp : mkout(n);
    int isvoid = !(IS("add_n") || IS("sub_n") || IS("addlsh1_n") || IS("sublsh1_n") || IS("rsh1add_n") || IS("rsh1sub_n"));
    mp_limb_t ret = ((f_rrrn)fn)(rp, up, vp, n);
    out_limbs(rp, n); outul(isvoid ? 0 : ret);
    if (al != 1 && !same(up, a[1], n)) outs("SOURCE-MODIFIED"); if (al != 2 && !same(vp, a[2], n)) outs("SOURCE-MODIFIED");
    CHK(up, n); CHK(vp, n); if (!al) { CHK(rp, n); gbuf_free(rp); } gbuf_free(up); gbuf_free(vp);
  } else if (IS("addadd_n") || IS("addsub_n") || IS("subadd_n")) {
    mp_size_t n = arg_l(a[0]); mp_ptr up = mk(a[1], n), vp = mk(a[2], n), wp = mk(a[3], n), rp = mkout(n);
    mp_limb_t ret = ((f_rrrrn)fn)(rp, up, vp, wp, n);
    out_limbs(rp, n); if (IS("addsub_n")) outl((long)(int)ret); else outul(ret);
    CHK(rp, n); CHK(up, n); CHK(vp, n); CHK(wp, n); gbuf_free(rp); gbuf_free(up); gbuf_free(vp); gbuf_free(wp);
  } else if (IS("sumdiff_n") || IS("nsumdiff_n")) {
    mp_size_t n = arg_l(a[0]); mp_ptr up = mk(a[1], n), vp = mk(a[2], n), sp = mkout(n), dp = mkout(n);
    mp_limb_t ret = ((f_rrrrrn)fn)(sp, dp, up, vp, n);
    out_limbs(sp, n); out_limbs(dp, n); outul(ret);
    CHK(sp, n); CHK(dp, n); CHK(up, n); CHK(vp, n); gbuf_free(sp); gbuf_free(dp); gbuf_free(up); gbuf_free(vp);
  } else if (IS("mul_1") || IS("addmul_1") || IS("submul_1") || IS("divexact_by3c")) {
    /* n U vl R0 */
    mp_size_t n = arg_l(a[0]); mp_ptr up = mk(a[1], n), rp = mk(a[3], n);
    mp_limb_t ret = ((f_rrnl)fn)(rp, up, n, arg_ul(a[2]));
    out_limbs(rp, n); outul(ret); if (!same(up, a[1], n)) outs("SOURCE-MODIFIED");
    CHK(rp, n); CHK(up, n); gbuf_free(rp); gbuf_free(up);
  } else if (IS("lshift") || IS("rshift") || IS("lshiftc")) {
    /* n U cnt overlap(0 separate, 1 in place) */
    mp_size_t n = arg_l(a[0]); int al = (int)arg_l(a[3]); mp_ptr up = mk(a[1], n), rp = al ? up : mkout(n);
    mp_limb_t ret = ((f_rrnu)fn)(rp, up, n, (unsigned)arg_ul(a[2]));
    out_limbs(rp, n); outul(ret); CHK(up, n); if (!al) { CHK(rp, n); gbuf_free(rp); } gbuf_free(up);
  } else if (IS("addlsh_n") || IS("sublsh_n")) {
    mp_size_t n = arg_l(a[0]); mp_ptr up = mk(a[1], n), vp = mk(a[2], n), rp = mkout(n);
    mp_limb_t ret = ((f_rrrnu)fn)(rp, up, vp, n, (unsigned)arg_ul(a[3]));
    out_limbs(rp, n); outul(ret); CHK(rp, n); CHK(up, n); CHK(vp, n); gbuf_free(rp); gbuf_free(up); gbuf_free(vp);
  } else if (IS("lshift1") || IS("lshift2") || IS("lshift3") || IS("lshift4") || IS("lshift5") || IS("lshift6") || IS("rshift1") || IS("rshift2")
             || IS("com_n") || IS("copyi") || IS("copyd") || IS("divexact_byff")) {
    mp_size_t n = arg_l(a[0]); mp_ptr up = mk(a[1], n), rp = mkout(n);
    int isvoid = IS("com_n") || IS("copyi") || IS("copyd");
    mp_limb_t ret = ((f_rrn)fn)(rp, up, n);
    out_limbs(rp, n); outul(isvoid ? 0 : ret); if (!same(up, a[1], n)) outs("SOURCE-MODIFIED");
    CHK(rp, n); CHK(up, n); gbuf_free(rp); gbuf_free(up);
  } else if (IS("double") || IS("half") || IS("not")) {
    mp_size_t n = arg_l(a[0]); mp_ptr rp = mk(a[1], n);
    mp_limb_t ret = ((f_rn)fn)(rp, n); out_limbs(rp, n); outul(IS("not") ? 0 : ret); CHK(rp, n); gbuf_free(rp);
  } else if (IS("store")) {
    mp_size_t n = arg_l(a[0]); mp_ptr rp = mkout(n); ((f_rnl)fn)(rp, n, arg_ul(a[1])); out_limbs(rp, n); CHK(rp, n); gbuf_free(rp);
  } else if (IS("popcount")) {
    mp_size_t n = arg_l(a[0]); mp_ptr up = mk(a[1], n); outul(((f_sn)fn)(up, n)); CHK(up, n); gbuf_free(up);
  } else if (IS("hamdist")) {
    mp_size_t n = arg_l(a[0]); mp_ptr up = mk(a[1], n), vp = mk(a[2], n); outul(((f_ssn)fn)(up, vp, n)); CHK(up, n); CHK(vp, n); gbuf_free(up); gbuf_free(vp);
  } else if (IS("mul_basecase") || IS("mulmid_basecase")) {
    mp_size_t un = arg_l(a[0]), vn = arg_l(a[2]); mp_size_t rn = IS("mul_basecase") ? un + vn : un - vn + 3;
    mp_ptr up = mk(a[1], un), vp = mk(a[3], vn), rp = mkout(rn);
    ((f_mulb)fn)(rp, up, un, vp, vn); out_limbs(rp, rn);
    if (!same(up, a[1], un) || !same(vp, a[3], vn)) outs("SOURCE-MODIFIED");
    CHK(rp, rn); CHK(up, un); CHK(vp, vn); gbuf_free(rp); gbuf_free(up); gbuf_free(vp);
  } else if (IS("sqr_basecase")) {
    mp_size_t n = arg_l(a[0]); mp_ptr up = mk(a[1], n), rp = mkout(2 * n);
    ((f_rrn)fn)(rp, up, n); out_limbs(rp, 2 * n); if (!same(up, a[1], n)) outs("SOURCE-MODIFIED");
    CHK(rp, 2 * n); CHK(up, n); gbuf_free(rp); gbuf_free(up);
  } else if (IS("mullow_n_basecase")) {
    mp_size_t n = arg_l(a[0]); mp_ptr up = mk(a[1], n), vp = mk(a[2], n), rp = mkout(n);
    ((f_rrrn)fn)(rp, up, vp, n); out_limbs(rp, n); CHK(rp, n); CHK(up, n); CHK(vp, n); gbuf_free(rp); gbuf_free(up); gbuf_free(vp);
  } else if (IS("mul_2") || IS("addmul_2")) {
    /* n U V(2 limbs) R0(n+1 limbs) */
    mp_size_t n = arg_l(a[0]); mp_ptr up = mk(a[1], n), vp = mk(a[2], 2), rp = mk(a[3], n + 1);
    mp_limb_t ret = ((f_rrnr)fn)(rp, up, n, vp); out_limbs(rp, n + 1); outul(ret);
    CHK(rp, n + 1); CHK(up, n); CHK(vp, 2); gbuf_free(rp); gbuf_free(up); gbuf_free(vp);
  } else if (IS("redc_1")) {
    mp_size_t n = arg_l(a[0]); mp_ptr tp = mk(a[1], 2 * n), mp = mk(a[2], n), rp = mkout(n);
    mp_limb_t inv; modlimb_invert(inv, mp[0]); ((f_redc)fn)(rp, tp, mp, n, -inv);   /* the library passes -1/m mod B */
    out_limbs(rp, n); CHK(rp, n); CHK(tp, 2 * n); CHK(mp, n); gbuf_free(rp); gbuf_free(tp); gbuf_free(mp);
  } else if (IS("divexact_byfobm1")) {
    mp_size_t n = arg_l(a[0]); mp_ptr up = mk(a[1], n), rp = mkout(n); mp_limb_t f = arg_ul(a[2]);
    mp_limb_t ret = ((f_rrnll)fn)(rp, up, n, f, (~(mp_limb_t)0) / f); out_limbs(rp, n); outul(ret); CHK(rp, n); CHK(up, n); gbuf_free(rp); gbuf_free(up);
  } else if (IS("modexact_1c_odd")) {
    mp_size_t n = arg_l(a[0]); mp_ptr up = mk(a[1], n); outul(((f_snll)fn)(up, n, arg_ul(a[2]), arg_ul(a[3]))); CHK(up, n); gbuf_free(up);
  } else if (IS("divrem_hensel_r_1")) {
    mp_size_t n = arg_l(a[0]); mp_ptr up = mk(a[1], n); outul(((f_snl)fn)(up, n, arg_ul(a[2]))); CHK(up, n); gbuf_free(up);
  } else if (IS("divrem_hensel_qr_1_1") || IS("divrem_hensel_qr_1_2")) {
    mp_size_t n = arg_l(a[0]); mp_ptr up = mk(a[1], n), rp = mkout(n);
    mp_limb_t ret = ((f_rrnl)fn)(rp, up, n, arg_ul(a[2])); out_limbs(rp, n); outul(ret); CHK(rp, n); CHK(up, n); gbuf_free(rp); gbuf_free(up);
  } else if (IS("rsh_divrem_hensel_qr_1_1") || IS("rsh_divrem_hensel_qr_1_2")) {
    mp_size_t n = arg_l(a[0]); mp_ptr up = mk(a[1], n), rp = mkout(n);
    mp_limb_t ret = ((f_rsh)fn)(rp, up, n, arg_ul(a[2]), (int)arg_l(a[3]), arg_ul(a[4])); out_limbs(rp, n); outul(ret); CHK(rp, n); CHK(up, n); gbuf_free(rp); gbuf_free(up);
  } else if (IS("divrem_euclidean_qr_1")) {
    /* n U d (qxn = 0) */
    mp_size_t n = arg_l(a[0]); mp_ptr up = mk(a[1], n), qp = mkout(n);
    mp_limb_t ret = ((f_qr1)fn)(qp, 0, up, n, arg_ul(a[2])); out_limbs(qp, n); outul(ret); CHK(qp, n); CHK(up, n); gbuf_free(qp); gbuf_free(up);
  } else if (IS("divrem_euclidean_qr_2")) {
    /* n X D(2 limbs, normalised): quotient n-2 limbs, remainder left in the low 2 limbs of X, returns the top quotient limb */
    mp_size_t n = arg_l(a[0]); mp_ptr xp = mk(a[1], n), dp = mk(a[2], 2), qp = mkout(n);
    mp_limb_t ret = ((f_qr2)fn)(qp, xp, n, dp); out_limbs(qp, n - 2); out_limbs(xp, 2); outul(ret); CHK(qp, n); CHK(xp, n); CHK(dp, 2); gbuf_free(qp); gbuf_free(xp); gbuf_free(dp);
  } else if (IS("divrem_2")) {
    mp_size_t n = arg_l(a[0]); mp_ptr xp = mk(a[1], n), dp = mk(a[2], 2), qp = mkout(n);
    mp_limb_t ret = ((f_dr2)fn)(qp, 0, xp, n, dp); out_limbs(qp, n - 2); out_limbs(xp, 2); outul(ret); CHK(qp, n); CHK(xp, n); CHK(dp, 2); gbuf_free(qp); gbuf_free(xp); gbuf_free(dp);
  } else if (IS("mod_1_1") || IS("mod_1_2") || IS("mod_1_3")) {
    /* n X d with (k+1)(d-1) <= B: db[i] = B^(i+1) mod d; the two-limb result is reduced mod d here */
    mp_size_t n = arg_l(a[0]); mp_ptr xp = mk(a[1], n); mp_limb_t d = arg_ul(a[2]), db[4], rem[2] = {0, 0};
    unsigned __int128 t = 1; for (int i = 0; i < 4; i++) { t = (t << 64) % d; db[i] = (mp_limb_t)t; }
    ((f_mod1k)fn)(rem, xp, n, db);
    unsigned __int128 v = ((unsigned __int128)rem[1] << 64) | rem[0]; outul((mp_limb_t)(v % d)); CHK(xp, n); gbuf_free(xp);
  } else if (IS("add_err1_n") || IS("sub_err1_n")) {
    mp_size_t n = arg_l(a[0]); mp_ptr up = mk(a[1], n), vp = mk(a[2], n), yp = mk(a[3], n), rp = mkout(n), ep = mkout(2);
    mp_limb_t ret = ((f_err1)fn)(rp, up, vp, ep, yp, n, arg_ul(a[4])); out_limbs(rp, n); out_limbs(ep, 2); outul(ret);
    CHK(rp, n); CHK(ep, 2); CHK(up, n); CHK(vp, n); CHK(yp, n); gbuf_free(rp); gbuf_free(ep); gbuf_free(up); gbuf_free(vp); gbuf_free(yp);
  } else if (IS("add_err2_n") || IS("sub_err2_n")) {
    mp_size_t n = arg_l(a[0]); mp_ptr up = mk(a[1], n), vp = mk(a[2], n), y1 = mk(a[3], n), y2 = mk(a[4], n), rp = mkout(n), ep = mkout(4);
    mp_limb_t ret = ((f_err2)fn)(rp, up, vp, ep, y1, y2, n, arg_ul(a[5])); out_limbs(rp, n); out_limbs(ep, 4); outul(ret);
    CHK(rp, n); CHK(ep, 4); gbuf_free(rp); gbuf_free(ep); gbuf_free(up); gbuf_free(vp); gbuf_free(y1); gbuf_free(y2);
  } else if (IS("karaadd") || IS("karasub")) {
    /* n R T : rp holds the low product (2*(n/2) limbs) and the high product (2*(n - n/2) limbs), tp the middle product; rp += (L + H +- T) * B^(n/2); tp is scratch */
    mp_size_t n = arg_l(a[0]); mp_size_t rn = 2 * n, tn = 2 * (n - n / 2) + 2;
    mp_ptr rp = mk(a[1], rn), tp = mk(a[2], tn);
    ((f_kara)fn)(rp, tp, n); out_limbs(rp, rn); CHK(rp, rn); CHK(tp, tn); gbuf_free(rp); gbuf_free(tp);
  } else outs("NO-HARNESS");
}
static void op_kern_list(int argc, char **argv)
{ (void)argc; (void)argv; for (const kern_t *k = kern_table; k->routine; k++) { outl(k->idx); outs(k->routine); outs(k->dir); } }
const op_t ops_kern[] = { {"kern", op_kern}, {"kern_list", op_kern_list}, {NULL, NULL} };
