/* ops_rand.c — C19: random number functions.
   rand K P1 P2 P3 SEEDMODE SEED COPYAT DUMP ncalls (code a b)* :
     K: 0 Mersenne Twister (gmp_randinit_mt), 1 gmp_randinit_lc_2exp (a=P1, c=P2, m2exp=P3), 2 gmp_randinit_lc_2exp_size (size=P1),
        3 gmp_randinit_default;  SEEDMODE: 0 not seeded, 1 gmp_randseed (SEED), 2 gmp_randseed_ui (SEED)
     after COPYAT calls the state is copied with gmp_randinit_set; from then on every call is made on both and must agree
     (COPYAT < 0: no copy).  A second state built and seeded the same way runs the whole sequence too and must agree.
     DUMP = 1 (Mersenne Twister only): the state after seeding is printed first: mti, then the 624 words as one number.
   calls: 1 mpz_urandomb a | 2 mpz_urandomm A | 3 mpz_rrandomb a | 4 mpn_urandomb a | 5 mpn_urandomm A | 6 gmp_urandomb_ui a |
          7 gmp_urandomm_ui a | 8 mpn_randomb a(limbs) | 9 mpn_rrandom a(limbs) | 10 mpf_urandomb a(prec bits) b(nbits)
   Destinations are filled with garbage first, mpn destinations have guard limbs. */
#include "common.h"
#include "randmt.h"

static int mk_state(gmp_randstate_t st, int K, char **p, int seedmode, const char *seed)
{
  if (K == 0) gmp_randinit_mt(st);
  else if (K == 3) gmp_randinit_default(st);
  else if (K == 1) { mpz_t a; parse_z(p[0], a); gmp_randinit_lc_2exp(st, a, arg_ul(p[1]), arg_ul(p[2])); mpz_clear(a); }
  else { if (!gmp_randinit_lc_2exp_size(st, arg_ul(p[0]))) return 0; }
  if (seedmode == 1) { mpz_t s; parse_z(seed, s); gmp_randseed(st, s); mpz_clear(s); }
  else if (seedmode == 2) gmp_randseed_ui(st, arg_ul(seed));
  return 1;
}
/* one call: the result as a string of tokens appended to buf */
static void one_call(gmp_randstate_t st, int code, const char *as, const char *bs, char *buf, size_t cap)
{
  size_t l = 0; buf[0] = 0;
#define APP(...) l += (size_t)snprintf(buf + l, cap - l, __VA_ARGS__)
  mpz_t r, A; mpz_init(r);
  /* garbage in the destination: the result must not depend on it */
  mpz_set_ui(r, 0x5a5a5a5a5a5a5a5aUL); mpz_mul_2exp(r, r, 700); mpz_sub_ui(r, r, 1);
  unsigned long a = arg_ul(as);
  switch (code) {
  case 1: mpz_urandomb(r, st, a); break;
  case 2: parse_z(as, A); mpz_urandomm(r, st, A); mpz_clear(A); break;
  case 3: mpz_rrandomb(r, st, a); break;
  case 4: case 8: case 9: {
      mp_size_t n = code == 4 ? (mp_size_t)((a + 63) / 64) : (mp_size_t)a; mp_ptr rp = gbuf_alloc(n + 1);
      for (mp_size_t i = 0; i <= n; i++) rp[i] = 0xDEADBEEFCAFEF00DUL;
      if (code == 4) mpn_urandomb(rp, st, a); else if (code == 8) mpn_randomb(rp, st, n); else mpn_rrandom(rp, st, n);
      if (!gbuf_ok(rp, n + 1) || rp[n] != 0xDEADBEEFCAFEF00DUL) APP("REDZONE ");
      if ((code == 8 || code == 9) && n > 0 && rp[n - 1] == 0) APP("TOP-LIMB-ZERO ");
      mp_size_t k = n; while (k > 0 && rp[k - 1] == 0) k--;
      mpz_realloc2(r, (mp_bitcnt_t)(n + 1) * 64); if (k) memcpy(PTR(r), rp, (size_t)k * 8); SIZ(r) = (int)k;
      gbuf_free(rp); break; }
  case 5: { parse_z(as, A); mp_size_t n = ABSIZ(A); mp_ptr rp = gbuf_alloc(n + 1); for (mp_size_t i = 0; i <= n; i++) rp[i] = 0xDEADBEEFCAFEF00DUL;
      mpn_urandomm(rp, st, PTR(A), n);
      if (!gbuf_ok(rp, n + 1) || rp[n] != 0xDEADBEEFCAFEF00DUL) APP("REDZONE ");
      mp_size_t k = n; while (k > 0 && rp[k - 1] == 0) k--;
      mpz_realloc2(r, (mp_bitcnt_t)(n + 1) * 64); if (k) memcpy(PTR(r), rp, (size_t)k * 8); SIZ(r) = (int)k;
      gbuf_free(rp); mpz_clear(A); break; }
  case 6: mpz_set_ui(r, gmp_urandomb_ui(st, a)); break;
  case 7: mpz_set_ui(r, gmp_urandomm_ui(st, a)); break;
  case 10: { mpf_t f; mpf_init2(f, a); mpf_set_ui(f, 3); mpf_urandomb(f, st, arg_ul(bs));
      APP("%lx %s%lx ", (unsigned long)SIZ(f), EXP(f) < 0 ? "-" : "", (unsigned long)(EXP(f) < 0 ? -EXP(f) : EXP(f)));
      mp_size_t k = ABSIZ(f); if (SIZ(f) < 0) APP("NEGATIVE ");
      if (k > 0 && PTR(f)[k - 1] == 0) APP("TOP-LIMB-ZERO ");
      mpz_realloc2(r, (mp_bitcnt_t)(k + 1) * 64); if (k) memcpy(PTR(r), PTR(f), (size_t)k * 8); SIZ(r) = (int)k;
      mpf_clear(f); break; }
  default: APP("UNKNOWN-CALL ");
  }
  if (!z_wf(r)) APP("BADFORMAT ");
  if (mpz_sgn(r) < 0) APP("-");
  if (mpz_sgn(r) == 0) APP("0");
  else for (mp_size_t i = ABSIZ(r) - 1; i >= 0; i--) APP(i == ABSIZ(r) - 1 ? "%lx" : "%016lx", PTR(r)[i]);
  mpz_clear(r);
}
static void op_rand(int argc, char **argv)
{
  int K = (int)arg_l(argv[1]); int seedmode = (int)arg_l(argv[5]); const char *seed = argv[6];
  long copyat = arg_l(argv[7]); int dump = (int)arg_l(argv[8]); long nc = arg_l(argv[9]);
  gmp_randstate_t st, st2, cp; int have_cp = 0;
  if (!mk_state(st, K, argv + 2, seedmode, seed)) { out_bytes((const unsigned char *)"NO-SCHEME", 9); return; }
  mk_state(st2, K, argv + 2, seedmode, seed);
  if (dump && (K == 0 || K == 3)) {
    gmp_rand_mt_struct *p = (gmp_rand_mt_struct *)RNG_STATE(st);
    outl(p->mti);
    mpz_t w; mpz_init2(w, 624 * 32 + 64);
    for (int i = N - 1; i >= 0; i--) { mpz_mul_2exp(w, w, 32); mpz_add_ui(w, w, p->mt[i]); }
    out_zv(w); mpz_clear(w);
  }
  static __thread char b1[1 << 16], b2[1 << 16];
  if (argc < 10 + 3 * nc) { outs("SHORT-LINE"); nc = 0; }
  for (long i = 0; i < nc; i++) {
    int code = (int)arg_l(argv[10 + 3 * i]); const char *a = argv[11 + 3 * i], *b = argv[12 + 3 * i];
    if (i == copyat) { gmp_randinit_set(cp, st); have_cp = 1; }
    one_call(st, code, a, b, b1, sizeof b1); outs(b1);
    one_call(st2, code, a, b, b2, sizeof b2); if (strcmp(b1, b2)) outs("SAME-SEED-DIFFERS");
    if (have_cp) { one_call(cp, code, a, b, b2, sizeof b2); if (strcmp(b1, b2)) outs("COPY-DIFFERS"); }
  }
  gmp_randclear(st); gmp_randclear(st2); if (have_cp) gmp_randclear(cp);
}
/* rand_bias K P1 P2 P3 SEED fn nbits ndraws : per-bit counts of ones over ndraws draws of nbits bits
   (fn 1 mpz_urandomb, 4 mpn_urandomb, 6 gmp_urandomb_ui), and for fn 2 (mpz_urandomm with modulus P... given in nbits slot as A):
   counts of the results in 8 equal buckets of [0, A) */
static void op_rand_bias(int argc, char **argv)
{
  (void)argc; int K = (int)arg_l(argv[1]); int fn = (int)arg_l(argv[6]); long nd = arg_l(argv[8]);
  gmp_randstate_t st; if (!mk_state(st, K, argv + 2, 2, argv[5])) { out_bytes((const unsigned char *)"NO-SCHEME", 9); return; }
  mpz_t r, A, t; mpz_init(r); mpz_init(t);
  if (fn == 2) {
    parse_z(argv[7], A); long bucket[8] = {0};
    for (long i = 0; i < nd; i++) { mpz_urandomm(r, st, A); mpz_mul_ui(t, r, 8); mpz_tdiv_q(t, t, A); unsigned long k = mpz_get_ui(t); if (k > 7 || mpz_cmp(r, A) >= 0 || mpz_sgn(r) < 0) { outs("OUT-OF-RANGE"); break; } bucket[k]++; }
    outl(nd); for (int k = 0; k < 8; k++) outl(bucket[k]);
    mpz_clear(A);
  } else {
    unsigned long nb = arg_ul(argv[7]); long *cnt = (long *)calloc(nb + 1, sizeof(long));
    for (long i = 0; i < nd; i++) {
      if (fn == 1) mpz_urandomb(r, st, nb);
      else if (fn == 6) mpz_set_ui(r, gmp_urandomb_ui(st, nb));
      else { mp_size_t n = (mp_size_t)((nb + 63) / 64); mpz_realloc2(r, (mp_bitcnt_t)(n + 1) * 64); mpn_urandomb(PTR(r), st, nb); while (n > 0 && PTR(r)[n - 1] == 0) n--; SIZ(r) = (int)n; }
      if (mpz_sizeinbase(r, 2) > nb && mpz_sgn(r)) { outs("OUT-OF-RANGE"); break; }
      for (unsigned long b = 0; b < nb; b++) cnt[b] += mpz_tstbit(r, b);
    }
    outl(nd); for (unsigned long b = 0; b < nb; b++) outl(cnt[b]);
    free(cnt);
  }
  mpz_clear(r); mpz_clear(t); gmp_randclear(st);
}
const op_t ops_rand[] = { {"rand", op_rand}, {"rand_bias", op_rand_bias}, {NULL, NULL} };
