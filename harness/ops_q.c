/* ops_q.c — C12 (and the mpq parts of C11): rational arithmetic, canonical form, conversions. */
#include "common.h"
static long sg(long v) { return v < 0 ? -1 : v > 0; }
static void parse_q(char **argv, mpq_ptr q)
{
  mpz_t n, d; parse_z(argv[0], n); parse_z(argv[1], d);
  mpq_init(q); mpz_set(mpq_numref(q), n); mpz_set(mpq_denref(q), d);
  mpz_realloc2(mpq_numref(q), (ABSIZ(n) ? ABSIZ(n) : 1) * GMP_NUMB_BITS);
  mpz_realloc2(mpq_denref(q), (ABSIZ(d) ? ABSIZ(d) : 1) * GMP_NUMB_BITS);
  mpz_clear(n); mpz_clear(d);
}
static void out_q(mpq_srcptr q) { out_zv(mpq_numref(q)); out_zv(mpq_denref(q)); if (!z_wf(mpq_numref(q)) || !z_wf(mpq_denref(q))) outs("BADFORMAT"); }

/* binary: xn xd yn yd alias (0 none, 1 r=x, 2 r=y, 3 x=y, 4 r=x=y) */
typedef void (*qfn3)(mpq_ptr, mpq_srcptr, mpq_srcptr);
static void do_q3(char **argv, qfn3 f)
{
  mpq_t x, y, r, x0, y0; int al = (int)arg_l(argv[5]);
  parse_q(argv + 1, x); parse_q(argv + 3, y); mpq_init(r); mpq_init(x0); mpq_init(y0); mpq_set(x0, x); mpq_set(y0, y);
  mpq_ptr px = x, py = y, pr = r;
  if (al == 1) pr = x; else if (al == 2) pr = y; else if (al == 3) py = x; else if (al == 4) { py = x; pr = x; }
  f(pr, px, py); out_q(pr);
  if (pr != x && !mpq_equal(x, x0)) outs("SRCMOD");
  if (pr != y && py == y && !mpq_equal(y, y0)) outs("SRCMOD");
  mpq_clear(x); mpq_clear(y); mpq_clear(r); mpq_clear(x0); mpq_clear(y0);
}
static void op_qadd(int c, char **v) { (void)c; do_q3(v, mpq_add); }
static void op_qsub(int c, char **v) { (void)c; do_q3(v, mpq_sub); }
static void op_qmul(int c, char **v) { (void)c; do_q3(v, mpq_mul); }
static void op_qdiv(int c, char **v) { (void)c; do_q3(v, mpq_div); }
/* unary: xn xd alias */
typedef void (*qfn2)(mpq_ptr, mpq_srcptr);
static void do_q2(char **argv, qfn2 f)
{
  mpq_t x, r; int al = (int)arg_l(argv[3]); parse_q(argv + 1, x); mpq_init(r);
  mpq_ptr pr = al ? x : r; f(pr, x); out_q(pr); mpq_clear(x); mpq_clear(r);
}
static void op_qinv(int c, char **v) { (void)c; do_q2(v, mpq_inv); }
static void op_qneg(int c, char **v) { (void)c; do_q2(v, mpq_neg); }
static void op_qabs(int c, char **v) { (void)c; do_q2(v, mpq_abs); }
static void op_qset(int c, char **v) { (void)c; do_q2(v, mpq_set); }
/* 2exp: xn xd n alias */
static void op_qmul_2exp(int argc, char **argv)
{ (void)argc; mpq_t x, r; parse_q(argv + 1, x); mpq_init(r); mpq_ptr pr = arg_l(argv[4]) ? x : r;
  mpq_mul_2exp(pr, x, arg_ul(argv[3])); out_q(pr); mpq_clear(x); mpq_clear(r); }
static void op_qdiv_2exp(int argc, char **argv)
{ (void)argc; mpq_t x, r; parse_q(argv + 1, x); mpq_init(r); mpq_ptr pr = arg_l(argv[4]) ? x : r;
  mpq_div_2exp(pr, x, arg_ul(argv[3])); out_q(pr); mpq_clear(x); mpq_clear(r); }
static void op_qcanon(int argc, char **argv)
{ (void)argc; mpq_t x; parse_q(argv + 1, x); mpq_canonicalize(x); out_q(x); mpq_clear(x); }
static void op_qset_z(int argc, char **argv)
{ (void)argc; mpq_t r; mpz_t z; parse_z(argv[1], z); mpq_init(r); mpq_set_z(r, z); out_q(r); mpq_clear(r); mpz_clear(z); }
static void op_qset_si(int argc, char **argv)
{ (void)argc; mpq_t r; mpq_init(r); mpq_set_si(r, arg_l(argv[1]), arg_ul(argv[2])); out_q(r); mpq_clear(r); }
static void op_qset_ui(int argc, char **argv)
{ (void)argc; mpq_t r; mpq_init(r); mpq_set_ui(r, arg_ul(argv[1]), arg_ul(argv[2])); out_q(r); mpq_clear(r); }
static void op_qset_d(int argc, char **argv)
{ (void)argc; mpq_t r; mpq_init(r); mpq_set_d(r, bits_to_double(arg_ul(argv[1]))); out_q(r); mpq_clear(r); }
/* mpq_set_f m e : f = m * 2^e held with enough precision to be exact */
static void op_qset_f(int argc, char **argv)
{
  (void)argc; mpz_t m; parse_z(argv[1], m); long e = arg_l(argv[2]); mpf_t f; mpq_t r;
  mpf_init2(f, (ABSIZ(m) + 2) * GMP_NUMB_BITS); mpf_set_z(f, m);
  if (e >= 0) mpf_mul_2exp(f, f, (mp_bitcnt_t)e); else mpf_div_2exp(f, f, (mp_bitcnt_t)(-e));
  mpq_init(r); mpq_set_f(r, f); out_q(r); mpq_clear(r); mpf_clear(f); mpz_clear(m);
}
static void op_qget_d(int argc, char **argv)
{ (void)argc; mpq_t x; parse_q(argv + 1, x); outul(double_to_bits(mpq_get_d(x))); mpq_clear(x); }
/* comparisons: xn xd yn yd same */
static void op_qcmp(int argc, char **argv)
{ (void)argc; mpq_t x, y; parse_q(argv + 1, x); parse_q(argv + 3, y);
  if (arg_l(argv[5])) { outl(sg(mpq_cmp(x, x))); outl(mpq_equal(x, x) != 0); }
  else { outl(sg(mpq_cmp(x, y))); outl(mpq_equal(x, y) != 0); }
  mpq_clear(x); mpq_clear(y); }
static void op_qcmp_ui(int argc, char **argv)
{ (void)argc; mpq_t x; parse_q(argv + 1, x); outl(sg(mpq_cmp_ui(x, arg_ul(argv[3]), arg_ul(argv[4])))); outl(sg(_mpq_cmp_ui(x, arg_ul(argv[3]), arg_ul(argv[4])))); mpq_clear(x); }
static void op_qcmp_si(int argc, char **argv)
{ (void)argc; mpq_t x; parse_q(argv + 1, x); outl(sg(mpq_cmp_si(x, arg_l(argv[3]), arg_ul(argv[4])))); mpq_clear(x); }
static void op_qcmp_z(int argc, char **argv)
{ (void)argc; mpq_t x; mpz_t z; parse_q(argv + 1, x); parse_z(argv[3], z); outl(sg(mpq_cmp_z(x, z))); mpq_clear(x); mpz_clear(z); }

const op_t ops_q[] = {
  {"mpq_add", op_qadd}, {"mpq_sub", op_qsub}, {"mpq_mul", op_qmul}, {"mpq_div", op_qdiv},
  {"mpq_inv", op_qinv}, {"mpq_neg", op_qneg}, {"mpq_abs", op_qabs}, {"mpq_set", op_qset},
  {"mpq_mul_2exp", op_qmul_2exp}, {"mpq_div_2exp", op_qdiv_2exp}, {"mpq_canonicalize", op_qcanon},
  {"mpq_set_z", op_qset_z}, {"mpq_set_si", op_qset_si}, {"mpq_set_ui", op_qset_ui}, {"mpq_set_d", op_qset_d}, {"mpq_set_f", op_qset_f},
  {"mpq_get_d", op_qget_d}, {"mpq_cmp", op_qcmp}, {"mpq_cmp_ui", op_qcmp_ui}, {"mpq_cmp_si", op_qcmp_si}, {"mpq_cmp_z", op_qcmp_z},
  {NULL, NULL}
};
