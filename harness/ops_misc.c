#include "common.h"
const op_t ops_misc[] = { {NULL, NULL} };
