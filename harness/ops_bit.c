#include "common.h"
const op_t ops_bit[] = { {NULL, NULL} };
