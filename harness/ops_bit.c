/* ops_bit.c — C10 operations: mpn logic, popcount, hamdist, scan; mpz bitwise functions. */
#include "common.h"

typedef void (*lfn)(mp_ptr, mp_srcptr, mp_srcptr, mp_size_t);
/* op n U V ovl (0 separate, 1 rp=up, 2 rp=vp) */
static void do_logic(char **argv, lfn f)
{
  mp_size_t n = arg_l(argv[1]); int ovl = (int)arg_l(argv[4]);
  mp_ptr up = gbuf_alloc(n), vp = gbuf_alloc(n), rp = gbuf_alloc(n);
  parse_limbs(argv[2], up, n); parse_limbs(argv[3], vp, n);
  mp_ptr r = ovl == 1 ? up : ovl == 2 ? vp : rp;
  f(r, up, vp, n);
  out_limbs(r, n);
  if (!gbuf_ok(up, n) || !gbuf_ok(vp, n) || !gbuf_ok(rp, n)) outs("REDZONE");
  gbuf_free(up); gbuf_free(vp); gbuf_free(rp);
}
/* gmp-impl.h turns mpn_and_n etc. into inline macros for the library's own use; the
   public entry points are the functions __gmpn_and_n ... of mpn/generic/and_n.c ... */
#define LOGIC(name) void __gmpn_##name(mp_ptr, mp_srcptr, mp_srcptr, mp_size_t); \
  static void op_##name(int c, char **v) { (void)c; do_logic(v, __gmpn_##name); }
LOGIC(and_n) LOGIC(andn_n) LOGIC(ior_n) LOGIC(iorn_n) LOGIC(nand_n) LOGIC(nior_n) LOGIC(xor_n) LOGIC(xnor_n)

static void op_popcount(int argc, char **argv)
{
  (void)argc; mp_size_t n = arg_l(argv[1]); mp_ptr up = gbuf_alloc(n);
  parse_limbs(argv[2], up, n); outul(mpn_popcount(up, n)); gbuf_free(up);
}
static void op_hamdist(int argc, char **argv)
{
  (void)argc; mp_size_t n = arg_l(argv[1]); mp_ptr up = gbuf_alloc(n), vp = gbuf_alloc(n);
  parse_limbs(argv[2], up, n); parse_limbs(argv[3], vp, n);
  outul(mpn_hamdist(up, vp, n)); gbuf_free(up); gbuf_free(vp);
}
/* mpn_scan1 n U start / mpn_scan0 n U start  (the generator guarantees a hit inside {up,n}) */
static void op_nscan1(int argc, char **argv)
{
  (void)argc; mp_size_t n = arg_l(argv[1]); mp_ptr up = gbuf_alloc(n);
  parse_limbs(argv[2], up, n); outul(mpn_scan1(up, arg_ul(argv[3]))); gbuf_free(up);
}
static void op_nscan0(int argc, char **argv)
{
  (void)argc; mp_size_t n = arg_l(argv[1]); mp_ptr up = gbuf_alloc(n);
  parse_limbs(argv[2], up, n); outul(mpn_scan0(up, arg_ul(argv[3]))); gbuf_free(up);
}

/* mpz binary logic: U V alias (0 none, 1 w=u, 2 w=v, 3 u=v, 4 w=u=v) */
typedef void (*zfn3)(mpz_ptr, mpz_srcptr, mpz_srcptr);
static void do_z3(char **argv, zfn3 f)
{
  mpz_t u, v, w, u0, v0; int al = (int)arg_l(argv[3]);
  parse_z(argv[1], u); parse_z(argv[2], v); mpz_init(w); mpz_realloc2(w, 1);
  mpz_init_set(u0, u); mpz_init_set(v0, v);
  mpz_ptr pu = u, pv = v, pw = w;
  if (al == 1) pw = u; else if (al == 2) pw = v; else if (al == 3) pv = u; else if (al == 4) { pv = u; pw = u; }
  f(pw, pu, pv);
  out_z(pw);
  if (pw != u && mpz_cmp(u, u0) != 0) outs("SRCMOD");
  if (pw != v && pv == v && mpz_cmp(v, v0) != 0) outs("SRCMOD");
  mpz_clear(u); mpz_clear(v); mpz_clear(w); mpz_clear(u0); mpz_clear(v0);
}
static void op_zand(int c, char **v) { (void)c; do_z3(v, mpz_and); }
static void op_zior(int c, char **v) { (void)c; do_z3(v, mpz_ior); }
static void op_zxor(int c, char **v) { (void)c; do_z3(v, mpz_xor); }
static void op_zcom(int argc, char **argv)
{
  (void)argc; mpz_t u, w; int al = (int)arg_l(argv[2]);
  parse_z(argv[1], u); mpz_init(w); mpz_realloc2(w, 1);
  mpz_ptr pw = al ? u : w; mpz_com(pw, u); out_z(pw); mpz_clear(u); mpz_clear(w);
}
/* in-place bit operations: U k ; the variable is first shrunk to its minimal allocation */
typedef void (*zbit)(mpz_ptr, mp_bitcnt_t);
static void do_zbit(char **argv, zbit f)
{
  mpz_t u; parse_z(argv[1], u);
  mpz_realloc2(u, (ABSIZ(u) ? ABSIZ(u) : 1) * GMP_NUMB_BITS);
  f(u, arg_ul(argv[2])); out_z(u); mpz_clear(u);
}
static void op_zsetbit(int c, char **v) { (void)c; do_zbit(v, mpz_setbit); }
static void op_zclrbit(int c, char **v) { (void)c; do_zbit(v, mpz_clrbit); }
static void op_zcombit(int c, char **v) { (void)c; do_zbit(v, mpz_combit); }
static void op_ztstbit(int argc, char **argv)
{ (void)argc; mpz_t u; parse_z(argv[1], u); outl(mpz_tstbit(u, arg_ul(argv[2]))); mpz_clear(u); }
static void op_zscan1(int argc, char **argv)
{ (void)argc; mpz_t u; parse_z(argv[1], u); outul(mpz_scan1(u, arg_ul(argv[2]))); mpz_clear(u); }
static void op_zscan0(int argc, char **argv)
{ (void)argc; mpz_t u; parse_z(argv[1], u); outul(mpz_scan0(u, arg_ul(argv[2]))); mpz_clear(u); }
static void op_zpopcount(int argc, char **argv)
{ (void)argc; mpz_t u; parse_z(argv[1], u); outul(mpz_popcount(u)); mpz_clear(u); }
static void op_zhamdist(int argc, char **argv)
{ (void)argc; mpz_t u, v; parse_z(argv[1], u); parse_z(argv[2], v);
  if (arg_l(argv[3])) outul(mpz_hamdist(u, u)); else outul(mpz_hamdist(u, v)); mpz_clear(u); mpz_clear(v); }

const op_t ops_bit[] = {
  {"mpn_and_n", op_and_n}, {"mpn_andn_n", op_andn_n}, {"mpn_ior_n", op_ior_n}, {"mpn_iorn_n", op_iorn_n},
  {"mpn_nand_n", op_nand_n}, {"mpn_nior_n", op_nior_n}, {"mpn_xor_n", op_xor_n}, {"mpn_xnor_n", op_xnor_n},
  {"mpn_popcount", op_popcount}, {"mpn_hamdist", op_hamdist}, {"mpn_scan1", op_nscan1}, {"mpn_scan0", op_nscan0},
  {"mpz_and", op_zand}, {"mpz_ior", op_zior}, {"mpz_xor", op_zxor}, {"mpz_com", op_zcom},
  {"mpz_setbit", op_zsetbit}, {"mpz_clrbit", op_zclrbit}, {"mpz_combit", op_zcombit}, {"mpz_tstbit", op_ztstbit},
  {"mpz_scan1", op_zscan1}, {"mpz_scan0", op_zscan0}, {"mpz_popcount", op_zpopcount}, {"mpz_hamdist", op_zhamdist},
  {NULL, NULL}
};
