/* ops_alias.c — C05: for a public function (thunk generated from gmp-h.in) and a partition of
   its object arguments into classes of identical variables, run the call with distinct
   variables and with the aliased arrangement on equal values and compare every object.
   Line:  alias <fname> <part> <scalars...> <class values...>
     part   : one digit per object argument = class id (0,1,2,... in order of first use)
     scalars: one token per scalar argument (signed hex; a double is given as a signed hex integer)
     values : per class, Z: value ; Q: num den ; F: mantissa exp2
   Output: 0 if everything agrees, else 1 and a reason. */
#include "common.h"
#include "alias.h"

#define MAXA 8
#define FPREC 192

typedef struct { char fam; mpz_t z; mpq_t q; mpf_t f; } obj;

static char fam_of(char k) { return (k == 'Z' || k == 'z') ? 'z' : (k == 'Q' || k == 'q') ? 'q' : 'f'; }
static int is_obj(char k) { return k == 'Z' || k == 'z' || k == 'Q' || k == 'q' || k == 'F' || k == 'f'; }

static void obj_init_val(obj *o, char fam, char **tok)
{
  o->fam = fam;
  if (fam == 'z') parse_z(tok[0], o->z);
  else if (fam == 'q') {
    mpz_t n, d; parse_z(tok[0], n); parse_z(tok[1], d);
    mpq_init(o->q); mpz_set(mpq_numref(o->q), n); mpz_set(mpq_denref(o->q), d);
    mpz_realloc2(mpq_numref(o->q), (ABSIZ(n) ? ABSIZ(n) : 1) * GMP_NUMB_BITS);
    mpz_realloc2(mpq_denref(o->q), (ABSIZ(d) ? ABSIZ(d) : 1) * GMP_NUMB_BITS);
    mpz_clear(n); mpz_clear(d);
  } else {
    mpz_t m; parse_z(tok[0], m); long e = arg_l(tok[1]);
    mpf_init2(o->f, FPREC); mpf_set_z(o->f, m);
    if (e >= 0) mpf_mul_2exp(o->f, o->f, (mp_bitcnt_t)e); else mpf_div_2exp(o->f, o->f, (mp_bitcnt_t)(-e));
    mpz_clear(m);
  }
}
static void obj_clear(obj *o) { if (o->fam == 'z') mpz_clear(o->z); else if (o->fam == 'q') mpq_clear(o->q); else mpf_clear(o->f); }
static void *obj_ptr(obj *o) { return o->fam == 'z' ? (void *)o->z : o->fam == 'q' ? (void *)o->q : (void *)o->f; }
static int zeq(mpz_srcptr a, mpz_srcptr b)
{ return SIZ(a) == SIZ(b) && (ABSIZ(a) == 0 || mpn_cmp(PTR(a), PTR(b), ABSIZ(a)) == 0); }
static int obj_eq(obj *a, obj *b)
{
  if (a->fam == 'z') return zeq(a->z, b->z);
  if (a->fam == 'q') return zeq(mpq_numref(a->q), mpq_numref(b->q)) && zeq(mpq_denref(a->q), mpq_denref(b->q));
  return SIZ(a->f) == SIZ(b->f) && (SIZ(a->f) == 0 || (EXP(a->f) == EXP(b->f) && mpn_cmp(PTR(a->f), PTR(b->f), ABSIZ(a->f)) == 0));
}
static int obj_wf(obj *o)
{
  if (o->fam == 'z') return z_wf(o->z);
  if (o->fam == 'q') return z_wf(mpq_numref(o->q)) && z_wf(mpq_denref(o->q));
  mp_size_t n = ABSIZ(o->f);
  if (n > PREC(o->f) + 1) return 0;
  if (n > 0 && PTR(o->f)[n-1] == 0) return 0;
  if (n == 0 && EXP(o->f) != 0) return 0;
  return 1;
}
static void obj_copy(obj *dst, obj *src)
{
  dst->fam = src->fam;
  if (src->fam == 'z') mpz_init_set(dst->z, src->z);
  else if (src->fam == 'q') { mpq_init(dst->q); mpz_set(mpq_numref(dst->q), mpq_numref(src->q)); mpz_set(mpq_denref(dst->q), mpq_denref(src->q)); }
  else { mpf_init2(dst->f, mpf_get_prec(src->f)); mpf_set(dst->f, src->f); }
}

static void op_alias(int argc, char **argv)
{
  const fdesc *fd = NULL;
  for (const fdesc *p = alias_table; p->name; p++) if (!strcmp(p->name, argv[1])) { fd = p; break; }
  if (!fd) { outl(1); outs("NOFUNC"); return; }
  const char *part = argv[2];
  int nargs = (int)strlen(fd->kinds), nobj = 0, nsc = 0, ncls = 0;
  int objarg[MAXA], cls[MAXA];
  for (int i = 0; i < nargs; i++) {
    if (is_obj(fd->kinds[i])) { objarg[nobj] = i; cls[nobj] = part[nobj] - '0'; if (cls[nobj] + 1 > ncls) ncls = cls[nobj] + 1; nobj++; }
    else nsc++;
  }
  unsigned long sc[MAXA]; double dv[MAXA];
  int ai = 3;
  { int si = 0; for (int i = 0; i < nargs; i++) if (!is_obj(fd->kinds[i])) { sc[si] = arg_ul(argv[ai]); dv[si] = (double)arg_l(argv[ai]); si++; ai++; } }
  /* class value tokens */
  char **cv[MAXA]; char cfam[MAXA];
  for (int c = 0; c < ncls; c++) {
    int first = -1; for (int j = 0; j < nobj; j++) if (cls[j] == c) { first = j; break; }
    cfam[c] = fam_of(fd->kinds[objarg[first]]);
    cv[c] = &argv[ai]; ai += (cfam[c] == 'z') ? 1 : 2;
  }
  if (ai > argc) { outl(1); outs("BADLINE"); return; }
  /* distinct run */
  obj d[MAXA], d0[MAXA]; void *po[MAXA];
  for (int j = 0; j < nobj; j++) { obj_init_val(&d[j], cfam[cls[j]], cv[cls[j]]); obj_copy(&d0[j], &d[j]); po[j] = obj_ptr(&d[j]); }
  unsigned long rd = 0, ra = 0; double drd = 0, dra = 0;
  fd->th(po, sc, dv, &rd, &drd);
  /* aliased run */
  obj a[MAXA], a0[MAXA];
  for (int c = 0; c < ncls; c++) { obj_init_val(&a[c], cfam[c], cv[c]); obj_copy(&a0[c], &a[c]); }
  for (int j = 0; j < nobj; j++) po[j] = obj_ptr(&a[cls[j]]);
  fd->th(po, sc, dv, &ra, &dra);
  /* compare */
  int bad = 0; char why[128]; why[0] = 0;
  for (int j = 0; j < nobj && !bad; j++) {
    char k = fd->kinds[objarg[j]];
    if (!(k >= 'A' && k <= 'Z') && !obj_eq(&d[j], &d0[j])) { bad = 1; snprintf(why, sizeof why, "INPUT-MODIFIED-arg%d", objarg[j]); }
    if (!obj_wf(&d[j])) { bad = 1; snprintf(why, sizeof why, "BADFORMAT-arg%d", objarg[j]); }
  }
  for (int c = 0; c < ncls && !bad; c++) {
    int outj = -1, anyj = -1;
    for (int j = 0; j < nobj; j++) if (cls[j] == c) { anyj = j; char k = fd->kinds[objarg[j]]; if (k >= 'A' && k <= 'Z' && outj < 0) outj = j; }
    if (!obj_wf(&a[c])) { bad = 1; snprintf(why, sizeof why, "BADFORMAT-aliased-class%d", c); break; }
    if (outj >= 0) { if (!obj_eq(&a[c], &d[outj])) { bad = 1; snprintf(why, sizeof why, "ALIAS-RESULT-DIFFERS-arg%d", objarg[outj]); } }
    else if (!obj_eq(&a[c], &a0[c])) { bad = 1; snprintf(why, sizeof why, "ALIASED-INPUT-MODIFIED-arg%d", objarg[anyj]); }
  }
  if (!bad && fd->ret != 'v') {
    if (fd->ret == 'd') { if (drd != dra && !(drd != drd && dra != dra)) { bad = 1; snprintf(why, sizeof why, "RETURN-DIFFERS"); } }
    else if (fd->ret == 'i') { if ((int)rd != (int)ra) { bad = 1; snprintf(why, sizeof why, "RETURN-DIFFERS"); } }
    else if (rd != ra) { bad = 1; snprintf(why, sizeof why, "RETURN-DIFFERS"); }
  }
  outl(bad);
  if (bad) outs(why);
  for (int j = 0; j < nobj; j++) { obj_clear(&d[j]); obj_clear(&d0[j]); }
  for (int c = 0; c < ncls; c++) { obj_clear(&a[c]); obj_clear(&a0[c]); }
}

/* mpz_aors_heap sub U V alias : mpz_add / mpz_sub on variables that own exactly the limbs they need (the destination one limb),
   alias 0: w, u, v distinct | 1: w = u | 2: w = v | 3: u = v | 4: w = u = v : value, size field and allocation of w afterwards */
static void op_aors_heap(int argc, char **argv)
{
  (void)argc; int sub = (int)arg_l(argv[1]), al = (int)arg_l(argv[4]);
  mpz_t x[3]; parse_z(argv[2], x[0]); parse_z(argv[3], x[1]); mpz_init(x[2]); _mpz_realloc(x[2], 1);
  mpz_ptr u = x[0], v = x[1], w = x[2];
  if (al == 1) w = u; else if (al == 2) w = v; else if (al == 3) v = u; else if (al == 4) { v = u; w = u; }
  if (sub) mpz_sub(w, u, v); else mpz_add(w, u, v);
  out_zv(w); outl(SIZ(w)); outl(ALLOC(w));
  if (!z_wf(w)) outs("BADFORMAT");
  for (int i = 0; i < 3; i++) mpz_clear(x[i]);
}
const op_t ops_alias[] = { {"mpz_aors_heap", op_aors_heap}, {"alias", op_alias}, {NULL, NULL} };
