/* ops_f.c — C13: mpf operations.  An operand is "prec_bits mant exp2" = mant * 2^exp2 held in a
   variable of precision prec_bits (at least wide enough to hold mant exactly).
   Generic call:  mpf <fn> <rprec_bits> <alias> <operands...>  prints  size exp prec mantissa
   (value = sign * mantissa * B^(exp - |size|)), plus format flags. */
#include "common.h"

static void f_make(mpf_ptr f, char **tok)        /* tok: prec_bits mant exp2 */
{
  unsigned long pb = arg_ul(tok[0]); mpz_t m; parse_z(tok[1], m); long e = arg_l(tok[2]);
  unsigned long need = (unsigned long)(ABSIZ(m) + 1) * GMP_NUMB_BITS;
  mpf_init2(f, pb > need ? pb : need);
  mpf_set_z(f, m);
  if (e >= 0) mpf_mul_2exp(f, f, (mp_bitcnt_t)e); else mpf_div_2exp(f, f, (mp_bitcnt_t)(-e));
  mpz_clear(m);
}
static void f_out(mpf_srcptr f)
{
  outl(SIZ(f)); outl(EXP(f)); outl(PREC(f)); out_limbs(PTR(f), ABSIZ(f));
  mp_size_t n = ABSIZ(f);
  if (n > PREC(f) + 1) outs("TOO-MANY-LIMBS");
  if (n > 0 && PTR(f)[n-1] == 0) outs("TOP-LIMB-ZERO");
  if (n == 0 && EXP(f) != 0) outs("ZERO-WITH-EXP");
}
static void op_mpf(int argc, char **argv)
{
  const char *fn = argv[1]; unsigned long rp = arg_ul(argv[2]); int al = (int)arg_l(argv[3]);
  mpf_t r, a, b; int na = 0, nb = 0; mpf_init2(r, rp);
  char **t = argv + 4; int nt = argc - 4;
#define ISF(s) (!strcmp(fn, s))
  if (ISF("add") || ISF("sub") || ISF("mul") || ISF("div")) {
    f_make(a, t); na = 1; if (al == 3 || al == 4) { } else { f_make(b, t + 3); nb = 1; }
    mpf_ptr pa = a, pb = (al == 3 || al == 4) ? a : b, pr = r;
    if (al == 1 || al == 4) pr = a; else if (al == 2) pr = b;
    if (pr != r) { /* the destination takes over the requested precision */ }
    if (ISF("add")) mpf_add(pr, pa, pb); else if (ISF("sub")) mpf_sub(pr, pa, pb); else if (ISF("mul")) mpf_mul(pr, pa, pb); else mpf_div(pr, pa, pb);
    f_out(pr);
  } else if (ISF("sqrt") || ISF("neg") || ISF("abs") || ISF("floor") || ISF("ceil") || ISF("trunc") || ISF("set")) {
    f_make(a, t); na = 1; mpf_ptr pr = al ? a : r;
    if (ISF("sqrt")) mpf_sqrt(pr, a); else if (ISF("neg")) mpf_neg(pr, a); else if (ISF("abs")) mpf_abs(pr, a);
    else if (ISF("floor")) mpf_floor(pr, a); else if (ISF("ceil")) mpf_ceil(pr, a); else if (ISF("trunc")) mpf_trunc(pr, a); else mpf_set(pr, a);
    f_out(pr);
  } else if (ISF("mul_2exp") || ISF("div_2exp") || ISF("add_ui") || ISF("sub_ui") || ISF("mul_ui") || ISF("div_ui") || ISF("pow_ui")) {
    f_make(a, t); na = 1; unsigned long k = arg_ul(t[3]); mpf_ptr pr = al ? a : r;
    if (ISF("mul_2exp")) mpf_mul_2exp(pr, a, k); else if (ISF("div_2exp")) mpf_div_2exp(pr, a, k);
    else if (ISF("add_ui")) mpf_add_ui(pr, a, k); else if (ISF("sub_ui")) mpf_sub_ui(pr, a, k);
    else if (ISF("mul_ui")) mpf_mul_ui(pr, a, k); else if (ISF("div_ui")) mpf_div_ui(pr, a, k); else mpf_pow_ui(pr, a, k);
    f_out(pr);
  } else if (ISF("ui_sub") || ISF("ui_div")) {
    unsigned long k = arg_ul(t[0]); f_make(a, t + 1); na = 1; mpf_ptr pr = al ? a : r;
    if (ISF("ui_sub")) mpf_ui_sub(pr, k, a); else mpf_ui_div(pr, k, a);
    f_out(pr);
  } else if (ISF("sqrt_ui")) { mpf_sqrt_ui(r, arg_ul(t[0])); f_out(r); }
  else if (ISF("set_ui")) { mpf_set_ui(r, arg_ul(t[0])); f_out(r); }
  else if (ISF("set_si")) { mpf_set_si(r, arg_l(t[0])); f_out(r); }
  else if (ISF("set_d")) { mpf_set_d(r, bits_to_double(arg_ul(t[0]))); f_out(r); }
  else if (ISF("set_z")) { mpz_t z; parse_z(t[0], z); mpf_set_z(r, z); f_out(r); mpz_clear(z); }
  else if (ISF("set_q")) { mpq_t q; mpz_t n, d; parse_z(t[0], n); parse_z(t[1], d); mpq_init(q); mpz_set(mpq_numref(q), n); mpz_set(mpq_denref(q), d);
                           mpf_set_q(r, q); f_out(r); mpq_clear(q); mpz_clear(n); mpz_clear(d); }
  else if (ISF("set_str")) { /* set_str base x:bytes : return value then the value */
    int base = (int)arg_l(t[0]); static __thread char sb[1 << 16]; const char *h = t[1] + 2; size_t n = 0;
    while (h[0] && h[1] && n + 1 < sizeof sb) { unsigned v; sscanf(h, "%2x", &v); sb[n++] = (char)v; h += 2; } sb[n] = 0;
    int rc = mpf_set_str(r, sb, base); outl(rc); f_out(r); }
  else outs("UNKNOWN-FN");
  (void)nt;
  if (na) mpf_clear(a);
  if (nb) mpf_clear(b);
  mpf_clear(r);
}
/* mpf_mul prec(limbs) um ue vm ve : operands given by mantissa and limb exponent, bit-exact comparison */
static void set_raw(mpf_ptr f, const char *ms, long e)
{
  mpz_t m; parse_z(ms, m); mp_size_t n = ABSIZ(m);
  mpf_init2(f, (unsigned long)(n + 2) * GMP_NUMB_BITS);
  if (n) MPN_COPY(PTR(f), PTR(m), n);
  SIZ(f) = SIZ(m); EXP(f) = n ? e : 0; mpz_clear(m);
}
static void op_mpf_mul(int argc, char **argv)
{
  (void)argc; mp_size_t prec = arg_l(argv[1]); mpf_t r, u, v;
  set_raw(u, argv[2], arg_l(argv[3])); set_raw(v, argv[4], arg_l(argv[5]));
  mpf_init2(r, (unsigned long)(prec - 1) * GMP_NUMB_BITS);      /* __GMPF_BITS_TO_PREC gives exactly prec limbs (prec >= 2) */
  if (PREC(r) != prec) outs("PREC-SETUP");
  mpf_mul(r, u, v);
  outl(SIZ(r)); outl(EXP(r)); out_limbs(PTR(r), ABSIZ(r));
  mpf_clear(r); mpf_clear(u); mpf_clear(v);
}
/* mpf_add_exact prec(limbs) um ue vm ve : like mpf_mul above for mpf_add: operands given by mantissa and limb exponent, bit-exact comparison */
static void op_mpf_add_exact(int argc, char **argv)
{
  (void)argc; mp_size_t prec = arg_l(argv[1]); mpf_t r, u, v;
  set_raw(u, argv[2], arg_l(argv[3])); set_raw(v, argv[4], arg_l(argv[5]));
  mpf_init2(r, (unsigned long)(prec - 1) * GMP_NUMB_BITS);
  if (PREC(r) != prec) outs("PREC-SETUP");
  mpf_add(r, u, v);
  outl(SIZ(r)); outl(EXP(r)); out_limbs(PTR(r), ABSIZ(r));
  mpf_clear(r); mpf_clear(u); mpf_clear(v);
}
/* mpf_sub_exact prec(limbs) um ue vm ve : bit-exact comparison of mpf_sub */
static void op_mpf_sub_exact(int argc, char **argv)
{
  (void)argc; mp_size_t prec = arg_l(argv[1]); mpf_t r, u, v;
  set_raw(u, argv[2], arg_l(argv[3])); set_raw(v, argv[4], arg_l(argv[5]));
  mpf_init2(r, (unsigned long)(prec - 1) * GMP_NUMB_BITS);
  if (PREC(r) != prec) outs("PREC-SETUP");
  mpf_sub(r, u, v);
  outl(SIZ(r)); outl(EXP(r)); out_limbs(PTR(r), ABSIZ(r));
  mpf_clear(r); mpf_clear(u); mpf_clear(v);
}
/* mpf_div_exact prec um ue vm ve | mpf_mul_ui_exact prec um ue k | mpf_div_ui_exact prec um ue k : bit-exact comparison */
static void f_exact3(int which, char **argv)
{
  mp_size_t prec = arg_l(argv[1]); mpf_t r, u, v;
  set_raw(u, argv[2], arg_l(argv[3]));
  mpf_init2(r, (unsigned long)(prec - 1) * GMP_NUMB_BITS);
  if (PREC(r) != prec) outs("PREC-SETUP");
  if (which == 0) { set_raw(v, argv[4], arg_l(argv[5])); mpf_div(r, u, v); mpf_clear(v); }
  else if (which == 1) mpf_mul_ui(r, u, arg_ul(argv[4]));
  else mpf_div_ui(r, u, arg_ul(argv[4]));
  outl(SIZ(r)); outl(EXP(r)); out_limbs(PTR(r), ABSIZ(r));
  mpf_clear(r); mpf_clear(u);
}
static void op_mpf_div_exact(int argc, char **argv) { (void)argc; f_exact3(0, argv); }
static void op_mpf_mul_ui_exact(int argc, char **argv) { (void)argc; f_exact3(1, argv); }
static void op_mpf_div_ui_exact(int argc, char **argv) { (void)argc; f_exact3(2, argv); }
static void op_mpfcheck(int argc, char **argv) { (void)argc; (void)argv; outl(1); }
/* mpf_get_str base ndigits prec mant exp2 : digit string and exponent */
static void op_fget_str(int argc, char **argv)
{
  (void)argc; int base = (int)arg_l(argv[1]); size_t nd = arg_ul(argv[2]); mpf_t a; f_make(a, argv + 3);
  mp_exp_t e; char *s = mpf_get_str(NULL, &e, base, nd, a); size_t l = strlen(s);
  out_bytes((unsigned char *)s, l); outl(e);
  void (*fr)(void *, size_t); mp_get_memory_functions(NULL, NULL, &fr); fr(s, l + 1);
  mpf_clear(a);
}
/* comparisons and exact queries: mpf_cmp a b ; mpf_misc a */
static void op_fcmp(int argc, char **argv)
{ (void)argc; mpf_t a, b; f_make(a, argv + 1); f_make(b, argv + 4);
  int c = mpf_cmp(a, b); outl(c < 0 ? -1 : c > 0); mpf_clear(a); mpf_clear(b); }
static void op_fmisc(int argc, char **argv)
{ (void)argc; mpf_t a; f_make(a, argv + 1);
  outl(mpf_integer_p(a) != 0); outl(mpf_sgn(a)); outl(mpf_fits_slong_p(a) != 0); outl(mpf_fits_ulong_p(a) != 0);
  outl(mpf_cmp_ui(a, 0) < 0 ? -1 : mpf_cmp_ui(a, 0) > 0);
  outul(double_to_bits(mpf_get_d(a)));
  mpf_clear(a); }
const op_t ops_f[] = { {"mpf", op_mpf}, {"mpf_mul", op_mpf_mul}, {"mpf_add_exact", op_mpf_add_exact}, {"mpf_sub_exact", op_mpf_sub_exact}, {"mpf_div_exact", op_mpf_div_exact}, {"mpf_mul_ui_exact", op_mpf_mul_ui_exact}, {"mpf_div_ui_exact", op_mpf_div_ui_exact}, {"mpfcheck", op_mpfcheck}, {"mpf_get_str", op_fget_str},
                       {"mpf_cmp", op_fcmp}, {"mpf_misc", op_fmisc}, {NULL, NULL} };
