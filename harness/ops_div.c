#include "common.h"
const op_t ops_div[] = { {NULL, NULL} };
