/* ops_div.c — C02 operations: word-level division macros instantiated from the
   repository headers, mpn division entry points, and the mpz division families. */
#include "common.h"

void out_residues(mp_srcptr p, mp_size_t n);

/* ---- word level: the macros of gmp-impl.h, compiled here against /repo's headers ---- */
static void op_invert_limb(int argc, char **argv)
{ (void)argc; mp_limb_t d = arg_ul(argv[1]), di; invert_limb(di, d); outul(di); }
static void op_preinv1(int argc, char **argv)
{
  (void)argc; mp_limb_t nh = arg_ul(argv[1]), nl = arg_ul(argv[2]), d = arg_ul(argv[3]), di, q, r;
  invert_limb(di, d); udiv_qrnnd_preinv1(q, r, nh, nl, d, di); outul(q); outul(r);
}
static void op_preinv2(int argc, char **argv)
{
  (void)argc; mp_limb_t nh = arg_ul(argv[1]), nl = arg_ul(argv[2]), d = arg_ul(argv[3]), di, q, r;
  invert_limb(di, d); udiv_qrnnd_preinv2(q, r, nh, nl, d, di); outul(q); outul(r);
}
/* mpn_dc_div_qr_n n N(2n limbs) D(n limbs, normalised) : the divide-and-conquer routine called directly: qh, quotient, remainder */
static void op_dc_div_qr_n(int argc, char **argv)
{
  (void)argc; mp_size_t n = arg_l(argv[1]);
  mp_ptr np = gbuf_alloc(2 * n), dp = gbuf_alloc(n), qp = gbuf_alloc(n), tp = gbuf_alloc(n + 8);
  parse_limbs(argv[2], np, 2 * n); parse_limbs(argv[3], dp, n);
  mp_limb_t dinv; mpir_invert_pi1(dinv, dp[n - 1], dp[n - 2]);
  mp_limb_t qh = mpn_dc_div_qr_n(qp, np, dp, n, dinv, tp);
  outul(qh); out_limbs(qp, n); out_limbs(np, n);
  if (!gbuf_ok(np, 2 * n) || !gbuf_ok(dp, n) || !gbuf_ok(qp, n) || !gbuf_ok(tp, n + 8)) outs("REDZONE");
  gbuf_free(np); gbuf_free(dp); gbuf_free(qp); gbuf_free(tp);
}
/* mpn_sb_div_qr nn N dn D : the schoolbook routine called directly (dn >= 3, D normalised): qh, quotient (nn-dn limbs), remainder (dn limbs) */
static void op_sb_div_qr(int argc, char **argv)
{
  (void)argc; mp_size_t nn = arg_l(argv[1]), dn = arg_l(argv[3]);
  mp_ptr np = gbuf_alloc(nn), dp = gbuf_alloc(dn), qp = gbuf_alloc(nn - dn + 1);
  parse_limbs(argv[2], np, nn); parse_limbs(argv[4], dp, dn);
  mp_limb_t dinv; mpir_invert_pi1(dinv, dp[dn - 1], dp[dn - 2]);
  mp_limb_t qh = mpn_sb_div_qr(qp, np, nn, dp, dn, dinv);
  outul(qh); out_limbs(qp, nn - dn); out_limbs(np, dn);
  if (!gbuf_ok(np, nn) || !gbuf_ok(dp, dn) || !gbuf_ok(qp, nn - dn + 1)) outs("REDZONE");
  gbuf_free(np); gbuf_free(dp); gbuf_free(qp);
}
static void op_invert_pi1(int argc, char **argv)
{ (void)argc; mp_limb_t d1 = arg_ul(argv[1]), d0 = arg_ul(argv[2]), v; mpir_invert_pi1(v, d1, d0); outul(v); }
static void op_3by2(int argc, char **argv)
{
  (void)argc; mp_limb_t n2 = arg_ul(argv[1]), n1 = arg_ul(argv[2]), n0 = arg_ul(argv[3]), d1 = arg_ul(argv[4]), d0 = arg_ul(argv[5]);
  mp_limb_t v, q, r1, r0; mpir_invert_pi1(v, d1, d0);
  udiv_qr_3by2(q, r1, r0, n2, n1, n0, d1, d0, v); outul(q); outul(r1); outul(r0);
}

/* ---- mpn level ---- */
/* mpn_divrem_1 n N d : quotient value, remainder */
static void op_divrem_1(int argc, char **argv)
{
  (void)argc; mp_size_t n = arg_l(argv[1]); mp_limb_t d = arg_ul(argv[3]);
  mp_ptr np = gbuf_alloc(n), qp = gbuf_alloc(n);
  parse_limbs(argv[2], np, n);
  mp_limb_t r = mpn_divrem_1(qp, 0, np, n, d);
  out_limbs(qp, n); outul(r);
  if (!gbuf_ok(np, n) || !gbuf_ok(qp, n)) outs("REDZONE");
  gbuf_free(np); gbuf_free(qp);
}
static void op_mod_1(int argc, char **argv)
{
  (void)argc; mp_size_t n = arg_l(argv[1]); mp_limb_t d = arg_ul(argv[3]);
  mp_ptr np = gbuf_alloc(n); parse_limbs(argv[2], np, n);
  outul(mpn_mod_1(np, n, d)); gbuf_free(np);
}
/* mpn_tdiv_qr nn N dn D [big]: quotient (nn-dn+1 limbs), remainder (dn limbs) */
static void do_tdiv_qr(char **argv, int big)
{
  mp_size_t nn = arg_l(argv[1]), dn = arg_l(argv[3]);
  mp_ptr np = gbuf_alloc(nn), dp = gbuf_alloc(dn), qp = gbuf_alloc(nn - dn + 1), rp = gbuf_alloc(dn);
  parse_limbs(argv[2], np, nn); parse_limbs(argv[4], dp, dn);
  mp_ptr n0 = gbuf_alloc(nn), d0 = gbuf_alloc(dn); MPN_COPY(n0, np, nn); MPN_COPY(d0, dp, dn);
  mpn_tdiv_qr(qp, rp, 0, np, nn, dp, dn);
  out_limbs(qp, nn - dn + 1); out_limbs(rp, dn);
  (void)big;
  if (mpn_cmp(n0, np, nn) || mpn_cmp(d0, dp, dn)) outs("SRCMOD");
  if (!gbuf_ok(np, nn) || !gbuf_ok(dp, dn) || !gbuf_ok(qp, nn - dn + 1) || !gbuf_ok(rp, dn)) outs("REDZONE");
  gbuf_free(np); gbuf_free(dp); gbuf_free(qp); gbuf_free(rp); gbuf_free(n0); gbuf_free(d0);
}
static void op_tdiv_qr(int c, char **v) { (void)c; do_tdiv_qr(v, 0); }
/* mpn_divrem nn N dn D (D normalised, dn >= 1... the function needs dn >= 1; qxn = 0):
   returns the high quotient limb; quotient nn-dn limbs; remainder in the low dn limbs of N */
static void op_divrem(int argc, char **argv)
{
  (void)argc; mp_size_t nn = arg_l(argv[1]), dn = arg_l(argv[3]);
  mp_ptr np = gbuf_alloc(nn), dp = gbuf_alloc(dn), qp = gbuf_alloc(nn - dn + 1);
  parse_limbs(argv[2], np, nn); parse_limbs(argv[4], dp, dn);
  mp_limb_t qh = mpn_divrem(qp, 0, np, nn, dp, dn);
  qp[nn - dn] = qh;
  out_limbs(qp, nn - dn + 1); out_limbs(np, dn);
  if (!gbuf_ok(np, nn) || !gbuf_ok(dp, dn) || !gbuf_ok(qp, nn - dn + 1)) outs("REDZONE");
  gbuf_free(np); gbuf_free(dp); gbuf_free(qp);
}
/* mpn_divexact_by3c n N : N a multiple of 3, carry-in 0 */
static void op_divexact_by3(int argc, char **argv)
{
  (void)argc; mp_size_t n = arg_l(argv[1]); mp_ptr np = gbuf_alloc(n), rp = gbuf_alloc(n);
  parse_limbs(argv[2], np, n);
  mp_limb_t c = mpn_divexact_by3c(rp, np, n, 0);
  out_limbs(rp, n); outul(c);
  if (!gbuf_ok(np, n) || !gbuf_ok(rp, n)) outs("REDZONE");
  gbuf_free(np); gbuf_free(rp);
}

/* ---- mpz level ---- */
/* op N D alias ; alias: 0 none, 1 out1=n, 2 out1=d, 3 r=n, 4 r=d, 5 q=n r=d, 6 q=d r=n */
enum { T, F, C };
static void do_qr(char **argv, int rnd)
{
  mpz_t n, d, q, r; int al = (int)arg_l(argv[3]);
  parse_z(argv[1], n); parse_z(argv[2], d); mpz_init(q); mpz_init(r); mpz_realloc2(q, 1); mpz_realloc2(r, 1);
  mpz_ptr pq = q, pr = r;
  if (al == 1) pq = n; else if (al == 2) pq = d; else if (al == 3) pr = n; else if (al == 4) pr = d;
  else if (al == 5) { pq = n; pr = d; } else if (al == 6) { pq = d; pr = n; }
  if (rnd == T) mpz_tdiv_qr(pq, pr, n, d); else if (rnd == F) mpz_fdiv_qr(pq, pr, n, d); else mpz_cdiv_qr(pq, pr, n, d);
  out_z(pq); out_z(pr);
  mpz_clear(n); mpz_clear(d); mpz_clear(q); mpz_clear(r);
}
static void op_tdiv_qr_z(int c, char **v) { (void)c; do_qr(v, T); }
static void op_fdiv_qr_z(int c, char **v) { (void)c; do_qr(v, F); }
static void op_cdiv_qr_z(int c, char **v) { (void)c; do_qr(v, C); }
typedef void (*zfn3)(mpz_ptr, mpz_srcptr, mpz_srcptr);
static void do_one(char **argv, zfn3 f)
{
  mpz_t n, d, w, n0, d0; int al = (int)arg_l(argv[3]);
  parse_z(argv[1], n); parse_z(argv[2], d); mpz_init(w); mpz_realloc2(w, 1);
  mpz_init_set(n0, n); mpz_init_set(d0, d);
  mpz_ptr pw = al == 1 ? n : al == 2 ? d : w;
  f(pw, n, d); out_z(pw);
  if (pw != n && mpz_cmp(n, n0)) outs("SRCMOD");
  if (pw != d && mpz_cmp(d, d0)) outs("SRCMOD");
  mpz_clear(n); mpz_clear(d); mpz_clear(w); mpz_clear(n0); mpz_clear(d0);
}
#define ONE(name) static void op_##name(int c, char **v) { (void)c; do_one(v, mpz_##name); }
ONE(tdiv_q) ONE(tdiv_r) ONE(fdiv_q) ONE(fdiv_r) ONE(cdiv_q) ONE(cdiv_r) ONE(mod) ONE(divexact)

/* _ui forms: op N d alias(0/1): prints outputs then the return value */
static void op_qr_ui(int argc, char **argv)
{
  (void)argc; const char *name = argv[0];
  mpz_t n, q, r; mpir_ui d = arg_ul(argv[2]), ret = 0; int al = (int)arg_l(argv[3]);
  parse_z(argv[1], n); mpz_init(q); mpz_init(r); mpz_realloc2(q, 1); mpz_realloc2(r, 1);
  mpz_ptr pq = al == 1 ? n : q, pr = al == 2 ? n : r;
  char k = name[4];                                    /* t / f / c */
  const char *form = name + 9;                          /* after "mpz_Xdiv_" */
  if (!strcmp(form, "qr_ui")) {
    ret = k == 't' ? mpz_tdiv_qr_ui(pq, pr, n, d) : k == 'f' ? mpz_fdiv_qr_ui(pq, pr, n, d) : mpz_cdiv_qr_ui(pq, pr, n, d);
    out_z(pq); out_z(pr);
  } else if (!strcmp(form, "q_ui")) {
    ret = k == 't' ? mpz_tdiv_q_ui(pq, n, d) : k == 'f' ? mpz_fdiv_q_ui(pq, n, d) : mpz_cdiv_q_ui(pq, n, d);
    out_z(pq);
  } else if (!strcmp(form, "r_ui")) {
    ret = k == 't' ? mpz_tdiv_r_ui(pq, n, d) : k == 'f' ? mpz_fdiv_r_ui(pq, n, d) : mpz_cdiv_r_ui(pq, n, d);
    out_z(pq);
  } else {                                              /* "ui": remainder only */
    ret = k == 't' ? mpz_tdiv_ui(n, d) : k == 'f' ? mpz_fdiv_ui(n, d) : mpz_cdiv_ui(n, d);
  }
  outul(ret);
  mpz_clear(n); mpz_clear(q); mpz_clear(r);
}
static void op_mod_ui(int argc, char **argv)
{
  (void)argc; mpz_t n, r; parse_z(argv[1], n); mpz_init(r); mpz_realloc2(r, 1);
  mpz_ptr pr = arg_l(argv[3]) ? n : r;
  mpir_ui ret = mpz_mod_ui(pr, n, arg_ul(argv[2])); out_z(pr); outul(ret); mpz_clear(n); mpz_clear(r);
}
static void op_divexact_ui(int argc, char **argv)
{
  (void)argc; mpz_t n, q; parse_z(argv[1], n); mpz_init(q); mpz_realloc2(q, 1);
  mpz_ptr pq = arg_l(argv[3]) ? n : q;
  mpz_divexact_ui(pq, n, arg_ul(argv[2])); out_z(pq); mpz_clear(n); mpz_clear(q);
}
/* 2exp forms: op N cnt alias */
static void op_2exp(int argc, char **argv)
{
  (void)argc; const char *name = argv[0];
  mpz_t n, w; parse_z(argv[1], n); mpz_init(w); mpz_realloc2(w, 1);
  mp_bitcnt_t cnt = arg_ul(argv[2]); mpz_ptr pw = arg_l(argv[3]) ? n : w;
  char k = name[4]; char qr = name[9];
  if (qr == 'q') { if (k == 't') mpz_tdiv_q_2exp(pw, n, cnt); else if (k == 'f') mpz_fdiv_q_2exp(pw, n, cnt); else mpz_cdiv_q_2exp(pw, n, cnt); }
  else { if (k == 't') mpz_tdiv_r_2exp(pw, n, cnt); else if (k == 'f') mpz_fdiv_r_2exp(pw, n, cnt); else mpz_cdiv_r_2exp(pw, n, cnt); }
  out_z(pw); mpz_clear(n); mpz_clear(w);
}
/* predicates */
static void op_divisible_p(int argc, char **argv)
{ (void)argc; mpz_t n, d; parse_z(argv[1], n); parse_z(argv[2], d); outl(mpz_divisible_p(n, d) != 0); mpz_clear(n); mpz_clear(d); }
static void op_divisible_ui_p(int argc, char **argv)
{ (void)argc; mpz_t n; parse_z(argv[1], n); outl(mpz_divisible_ui_p(n, arg_ul(argv[2])) != 0); mpz_clear(n); }
static void op_divisible_2exp_p(int argc, char **argv)
{ (void)argc; mpz_t n; parse_z(argv[1], n); outl(mpz_divisible_2exp_p(n, arg_ul(argv[2])) != 0); mpz_clear(n); }
static void op_congruent_p(int argc, char **argv)
{ (void)argc; mpz_t a, c, d; parse_z(argv[1], a); parse_z(argv[2], c); parse_z(argv[3], d);
  outl(mpz_congruent_p(a, c, d) != 0); mpz_clear(a); mpz_clear(c); mpz_clear(d); }
static void op_congruent_ui_p(int argc, char **argv)
{ (void)argc; mpz_t a; parse_z(argv[1], a); outl(mpz_congruent_ui_p(a, arg_ul(argv[2]), arg_ul(argv[3])) != 0); mpz_clear(a); }
static void op_congruent_2exp_p(int argc, char **argv)
{ (void)argc; mpz_t a, c; parse_z(argv[1], a); parse_z(argv[2], c);
  outl(mpz_congruent_2exp_p(a, c, arg_ul(argv[3])) != 0); mpz_clear(a); mpz_clear(c); }
/* divcheck N D Q R: certificate check is done by the model; the implementation side echoes 1 */
static void op_divcheck(int argc, char **argv) { (void)argc; (void)argv; outl(1); }

const op_t ops_div[] = {
  {"invert_limb", op_invert_limb}, {"udiv_preinv1", op_preinv1}, {"udiv_preinv2", op_preinv2},
  {"invert_pi1", op_invert_pi1}, {"mpn_sb_div_qr", op_sb_div_qr}, {"mpn_dc_div_qr_n", op_dc_div_qr_n}, {"udiv_3by2", op_3by2},
  {"mpn_divrem_1", op_divrem_1}, {"mpn_mod_1", op_mod_1}, {"mpn_tdiv_qr", op_tdiv_qr}, {"mpn_divrem", op_divrem},
  {"mpn_divexact_by3", op_divexact_by3},
  {"mpz_tdiv_qr", op_tdiv_qr_z}, {"mpz_fdiv_qr", op_fdiv_qr_z}, {"mpz_cdiv_qr", op_cdiv_qr_z},
  {"mpz_tdiv_q", op_tdiv_q}, {"mpz_tdiv_r", op_tdiv_r}, {"mpz_fdiv_q", op_fdiv_q}, {"mpz_fdiv_r", op_fdiv_r},
  {"mpz_cdiv_q", op_cdiv_q}, {"mpz_cdiv_r", op_cdiv_r}, {"mpz_mod", op_mod}, {"mpz_divexact", op_divexact},
  {"mpz_tdiv_qr_ui", op_qr_ui}, {"mpz_fdiv_qr_ui", op_qr_ui}, {"mpz_cdiv_qr_ui", op_qr_ui},
  {"mpz_tdiv_q_ui", op_qr_ui}, {"mpz_fdiv_q_ui", op_qr_ui}, {"mpz_cdiv_q_ui", op_qr_ui},
  {"mpz_tdiv_r_ui", op_qr_ui}, {"mpz_fdiv_r_ui", op_qr_ui}, {"mpz_cdiv_r_ui", op_qr_ui},
  {"mpz_tdiv_ui", op_qr_ui}, {"mpz_fdiv_ui", op_qr_ui}, {"mpz_cdiv_ui", op_qr_ui},
  {"mpz_mod_ui", op_mod_ui}, {"mpz_divexact_ui", op_divexact_ui},
  {"mpz_tdiv_q_2exp", op_2exp}, {"mpz_fdiv_q_2exp", op_2exp}, {"mpz_cdiv_q_2exp", op_2exp},
  {"mpz_tdiv_r_2exp", op_2exp}, {"mpz_fdiv_r_2exp", op_2exp}, {"mpz_cdiv_r_2exp", op_2exp},
  {"mpz_divisible_p", op_divisible_p}, {"mpz_divisible_ui_p", op_divisible_ui_p}, {"mpz_divisible_2exp_p", op_divisible_2exp_p},
  {"mpz_congruent_p", op_congruent_p}, {"mpz_congruent_ui_p", op_congruent_ui_p}, {"mpz_congruent_2exp_p", op_congruent_2exp_p},
  {"divcheck", op_divcheck},
  {NULL, NULL}
};
