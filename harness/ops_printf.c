/* ops_printf.c — C18: gmp_*printf / gmp_*scanf.
   Formats are built as "%" <spec> <type> <conv>; up to two '*' arguments are passed as ints.
   Where C gives the conversion a meaning for a value that fits a long, the C library's own output
   for the same spec with type "l" is printed as a third token (else the MPIR output is repeated),
   so that model, libc and library are compared with each other. */
#define _GNU_SOURCE
#include "common.h"

static __thread unsigned char sb[1 << 12];
static size_t unhexs(const char *s, unsigned char *buf, size_t cap)
{
  size_t n = 0; if (s[0] == 'x' && s[1] == ':') s += 2;
  while (s[0] && s[1] && n < cap) { unsigned v; sscanf(s, "%2x", &v); buf[n++] = (unsigned char)v; s += 2; }
  return n;
}
static void free_str(char *p, size_t alloc)   /* through the library's free function: the recorded block size must be alloc */
{ void (*fr)(void *, size_t); mp_get_memory_functions(NULL, NULL, &fr); fr(p, alloc); }

/* does C define this spec for an unsigned conversion (o x X): no '+' or ' ' */
static int spec_has(const char *spec, char c) { return strchr(spec, c) != NULL; }
static int bare_dot(const char *spec)          /* '.' not followed by a digit or '*' : MPIR reads "not given", C reads 0 */
{ const char *d = strchr(spec, '.'); return d && !(d[1] == '*' || (d[1] >= '0' && d[1] <= '9')); }
static int prec_is_zero(const char *spec, int nst, int s1, int s2)
{
  const char *d = strchr(spec, '.'); if (!d) return 0;
  if (d[1] == '*') { int pv = (strchr(spec, '*') < d) ? s2 : (nst ? s1 : 0); return pv == 0; }
  return atoi(d + 1) == 0;
}
/* gmp_printf_Z spec conv nstars s1 s2 X */
static void op_printf_Z(int argc, char **argv)
{
  (void)argc; size_t n = unhexs(argv[1], sb, sizeof sb - 1); sb[n] = 0; const char *spec = (char *)sb;
  char conv = (char)arg_l(argv[2]); int nst = (int)arg_l(argv[3]), s1 = (int)arg_l(argv[4]), s2 = (int)arg_l(argv[5]);
  mpz_t x; parse_z(argv[6], x);
  char fmt[600], lfmt[600]; snprintf(fmt, sizeof fmt, "%%%sZ%c", spec, conv); snprintf(lfmt, sizeof lfmt, "%%%sl%c", spec, conv);
  char *p = NULL; int r;
  if (nst == 0) r = gmp_asprintf(&p, fmt, x); else if (nst == 1) r = gmp_asprintf(&p, fmt, s1, x); else r = gmp_asprintf(&p, fmt, s1, s2, x);
  size_t l = strlen(p); out_bytes((unsigned char *)p, l); outl(r);
  /* the same through sprintf and snprintf with room to spare */
  char big[4096]; memset(big, 0x7e, sizeof big); int r2;
  if (nst == 0) r2 = gmp_sprintf(big, fmt, x); else if (nst == 1) r2 = gmp_sprintf(big, fmt, s1, x); else r2 = gmp_sprintf(big, fmt, s1, s2, x);
  if (r2 != r || strcmp(big, p)) outs("SPRINTF-DIFFERS");
  int cmeaning = mpz_fits_slong_p(x) && !bare_dot(spec)
    && (conv == 'd' || conv == 'i' || (mpz_sgn(x) >= 0 && !spec_has(spec, '+') && !spec_has(spec, ' ')))
    && !(spec_has(spec, '#') && mpz_sgn(x) == 0 && (conv == 'x' || conv == 'X') && prec_is_zero(spec, nst, s1, s2));
  if (cmeaning) {
    char cb[4096]; long v = mpz_get_si(x);
    if (nst == 0) snprintf(cb, sizeof cb, lfmt, v); else if (nst == 1) snprintf(cb, sizeof cb, lfmt, s1, v); else snprintf(cb, sizeof cb, lfmt, s1, s2, v);
    out_bytes((unsigned char *)cb, strlen(cb));
  } else out_bytes((unsigned char *)p, l);
  free_str(p, l + 1);
  mpz_clear(x);
}
/* gmp_printf_Q spec conv nstars s1 s2 N D */
static void op_printf_Q(int argc, char **argv)
{
  (void)argc; size_t n = unhexs(argv[1], sb, sizeof sb - 1); sb[n] = 0;
  char conv = (char)arg_l(argv[2]); int nst = (int)arg_l(argv[3]), s1 = (int)arg_l(argv[4]), s2 = (int)arg_l(argv[5]);
  mpq_t q; mpz_t a, b; parse_z(argv[6], a); parse_z(argv[7], b); mpq_init(q); mpz_set(mpq_numref(q), a); mpz_set(mpq_denref(q), b);
  char fmt[600]; snprintf(fmt, sizeof fmt, "%%%sQ%c", (char *)sb, conv);
  char *p = NULL; int r;
  if (nst == 0) r = gmp_asprintf(&p, fmt, q); else if (nst == 1) r = gmp_asprintf(&p, fmt, s1, q); else r = gmp_asprintf(&p, fmt, s1, s2, q);
  size_t l = strlen(p); out_bytes((unsigned char *)p, l); outl(r); free_str(p, l + 1);
  mpq_clear(q); mpz_clear(a); mpz_clear(b);
}
/* gmp_printf_N spec conv X nlimbs : {xp, +-nlimbs} with high zero limbs allowed */
static void op_printf_N(int argc, char **argv)
{
  (void)argc; size_t n = unhexs(argv[1], sb, sizeof sb - 1); sb[n] = 0; char conv = (char)arg_l(argv[2]);
  mp_size_t nl = arg_l(argv[4]); mp_ptr xp = gbuf_alloc(nl + 1); int neg = parse_limbs(argv[3], xp, nl);
  char fmt[600]; snprintf(fmt, sizeof fmt, "%%%sN%c", (char *)sb, conv);
  char *p = NULL; int r = gmp_asprintf(&p, fmt, xp, neg ? -nl : nl);
  size_t l = strlen(p); out_bytes((unsigned char *)p, l); outl(r); free_str(p, l + 1);
  if (!gbuf_ok(xp, nl + 1)) outs("REDZONE");
  gbuf_free(xp);
}
/* gmp_printf_M spec conv limb : handed to the C library as a long */
static void op_printf_M(int argc, char **argv)
{
  (void)argc; size_t n = unhexs(argv[1], sb, sizeof sb - 1); sb[n] = 0; char conv = (char)arg_l(argv[2]); mp_limb_t v = arg_ul(argv[3]);
  char fmt[600]; snprintf(fmt, sizeof fmt, "%%%sM%c", (char *)sb, conv);
  char *p = NULL; int r = gmp_asprintf(&p, fmt, v);
  size_t l = strlen(p); out_bytes((unsigned char *)p, l); outl(r); free_str(p, l + 1);
}
/* gmp_snprintf_sweep spec conv X : for every size 0 .. len+2 the bytes stored (up to the terminator) and the return value */
static void op_snprintf_sweep(int argc, char **argv)
{
  (void)argc; size_t n = unhexs(argv[1], sb, sizeof sb - 1); sb[n] = 0; char conv = (char)arg_l(argv[2]);
  mpz_t x; parse_z(argv[3], x);
  char fmt[600]; snprintf(fmt, sizeof fmt, "<%%%sZ%c|%%d>", (char *)sb, conv);
  int full = gmp_snprintf(NULL, 0, fmt, x, 42);
  outl(full);
  for (int size = 0; size <= full + 2; size++) {
    unsigned char *buf = (unsigned char *)malloc((size_t)full + 64); memset(buf, 0xE7, (size_t)full + 64);
    int r = gmp_snprintf((char *)buf + 16, (size_t)size, fmt, x, 42);
    outl(r);
    int bad = 0; for (int i = 0; i < 16; i++) bad |= buf[i] != 0xE7;
    for (int i = 16 + size; i < full + 64; i++) bad |= buf[i] != 0xE7;
    if (bad) outs("WROTE-OUTSIDE");
    if (size == 0) out_bytes(buf, 0);
    else { size_t l = 0; while (l < (size_t)size && buf[16 + l]) l++;
           if (l == (size_t)size) outs("NO-TERMINATOR"); out_bytes(buf + 16, l); }
    free(buf);
  }
  mpz_clear(x);
}
/* gmp_printf_mixed template a b X N D : standard and MPIR conversions in one format */
static void op_printf_mixed(int argc, char **argv)
{
  (void)argc; int t = (int)arg_l(argv[1]); long a = arg_l(argv[2]); unsigned long b = arg_ul(argv[3]);
  mpz_t x; mpq_t q; mpz_t qn, qd; parse_z(argv[4], x); parse_z(argv[5], qn); parse_z(argv[6], qd); mpq_init(q); mpz_set(mpq_numref(q), qn); mpz_set(mpq_denref(q), qd);
  char *p = NULL; int r = -9;
  switch (t) {
  case 0: r = gmp_asprintf(&p, "a%ldb%Zdc%sd%lx%%e%Qx", a, x, "str", b, q); break;
  case 1: r = gmp_asprintf(&p, "%Zd%Zd %5ld|%-8Zx|%c", x, x, a, x, 'k'); break;
  case 2: r = gmp_asprintf(&p, "%*ld %Qd %.3s %#Zo %lu", 7, a, q, "abcdef", x, b); break;
  case 3: r = gmp_asprintf(&p, "%%%Zd%%%ld%%", x, a); break;
  case 4: r = gmp_asprintf(&p, "%hd %hhd %Zi %lld %zu", (int)(short)a, (int)(signed char)a, x, (long long)a, (size_t)b); break;
  }
  size_t l = strlen(p); out_bytes((unsigned char *)p, l); outl(r); free_str(p, l + 1);
  mpz_clear(x); mpq_clear(q); mpz_clear(qn); mpz_clear(qd);
}
/* gmp_scan_rt mode X N D a : print values, read them back with gmp_sscanf and gmp_fscanf: count, values, %n */
static void op_scan_rt(int argc, char **argv)
{
  (void)argc; int mode = (int)arg_l(argv[1]); long a = arg_l(argv[4 + 1]);
  mpz_t x, x2; mpq_t q, q2; mpz_t qn, qd; parse_z(argv[2], x); parse_z(argv[3], qn); parse_z(argv[4], qd);
  mpq_init(q); mpz_set(mpq_numref(q), qn); mpz_set(mpq_denref(q), qd); mpz_init_set_si(x2, 99); mpq_init(q2);
  char buf[8192]; long a2 = -77; int nn = -1, cnt;
  static const char *pf[] = { "%Zd %Qd %ld",  "%Zx %Qx %ld", "%#Zx %#Qx %ld", "%Zo %Qo %ld", "%#Zo %#Qo %ld", "%20Zd %-20Qd %ld", "%+Zd %+Qd %ld" };
  static const char *sf[] = { "%Zd %Qd %ld%n", "%Zx %Qx %ld%n", "%Zi %Qi %ld%n", "%Zo %Qo %ld%n", "%Zi %Qi %ld%n", "%Zd %Qd %ld%n", "%Zd %Qd %ld%n" };
  int k = mode % 7; int viafile = mode >= 7;
  gmp_snprintf(buf, sizeof buf, pf[k], x, q, a);
  if (!viafile) cnt = gmp_sscanf(buf, sf[k], x2, q2, &a2, &nn);
  else { FILE *fp = fmemopen(buf, strlen(buf), "rb"); cnt = gmp_fscanf(fp, sf[k], x2, q2, &a2, &nn); fclose(fp); }
  outl(cnt); out_zv(x2); out_zv(mpq_numref(q2)); out_zv(mpq_denref(q2)); outl(a2); outl(nn == (int)strlen(buf));
  mpz_clear(x); mpz_clear(x2); mpq_clear(q); mpq_clear(q2); mpz_clear(qn); mpz_clear(qd);
}
/* gmp_scan_partial k x:text : "%Zd %Zd %Zd" on a text holding fewer / malformed fields: the C-style count (-1 = EOF) and the assigned values */
static void op_scan_partial(int argc, char **argv)
{
  (void)argc; int via = (int)arg_l(argv[1]); size_t n = unhexs(argv[2], sb, sizeof sb - 1); sb[n] = 0;
  mpz_t z[3]; for (int i = 0; i < 3; i++) mpz_init_set_si(z[i], -5);
  int cnt;
  if (!via) cnt = gmp_sscanf((char *)sb, "%Zd %Zd %Zd", z[0], z[1], z[2]);
  else { FILE *fp = fmemopen(n ? (void *)sb : (void *)"", n ? n : 1, "rb"); if (!n) fgetc(fp); cnt = gmp_fscanf(fp, "%Zd %Zd %Zd", z[0], z[1], z[2]); fclose(fp); }
  outl(cnt); for (int i = 0; i < 3; i++) { out_zv(z[i]); if (!z_wf(z[i])) outs("BADFORMAT"); mpz_clear(z[i]); }
}
/* gmp_doscan x:format x:input x:slots mode : one call with up to 8 pointer arguments whose kinds are given by the slot letters
   (Z mpz, Q mpq, l long, d int, h short, c char).  mode 0: the string reader (__gmp_doscan with the functions of gmp_sscanf, so that
   the final position in the string is observable); mode 1: gmp_fscanf on a stream, the position taken with ftell afterwards
   (every byte read ahead must have been pushed back); mode 2: gmp_sscanf itself (position printed as in mode 0 by a second call).
   Output: return value, bytes consumed, the content of every argument afterwards. */
#include <stdarg.h>
static int dosc(const char **sp, const char *fmt, ...)
{ va_list ap; va_start(ap, fmt); int r = __gmp_doscan(&__gmp_sscanf_funs, (void *) sp, fmt, ap); va_end(ap); return r; }
static void op_gmp_doscan(int argc, char **argv)
{
  (void)argc;
  static __thread unsigned char fb[1 << 12], ib[1 << 12], sl[16];
  size_t nf = unhexs(argv[1], fb, sizeof fb - 1); fb[nf] = 0;
  size_t ni = unhexs(argv[2], ib, sizeof ib - 1); ib[ni] = 0;
  size_t ns = unhexs(argv[3], sl, 8); int mode = (int)arg_l(argv[4]);
  mpz_t z[8]; mpq_t q[8]; long l[8]; int d[8]; short h[8]; signed char c[8]; void *p[8];
  for (int i = 0; i < 8; i++) {
    mpz_init_set_ui(z[i], 77777); mpq_init(q[i]); mpz_set_ui(mpq_numref(q[i]), 77777); mpz_set_ui(mpq_denref(q[i]), 7);
    l[i] = 0x5A5A5A5A5A5A5A5AL; d[i] = 0x5A5A5A5A; h[i] = 0x5A5A; c[i] = 0x5A; p[i] = z[i];
    if ((size_t)i < ns) switch (sl[i]) { case 'Z': p[i] = z[i]; break; case 'Q': p[i] = q[i]; break; case 'l': p[i] = &l[i]; break;
                                         case 'd': p[i] = &d[i]; break; case 'h': p[i] = &h[i]; break; default: p[i] = &c[i]; }
  }
  int ret; long pos;
  if (mode == 1 && ni > 0 && strlen((char *)ib) == ni) {
    FILE *fp = fmemopen(ib, ni, "rb");
    ret = gmp_fscanf(fp, (char *)fb, p[0], p[1], p[2], p[3], p[4], p[5], p[6], p[7]);
    pos = ftell(fp); fclose(fp);
  } else {
    const char *s = (char *)ib;
    ret = dosc(&s, (char *)fb, p[0], p[1], p[2], p[3], p[4], p[5], p[6], p[7]);
    pos = (long)(s - (char *)ib);
  }
  outl(ret); outl(pos);
  for (size_t i = 0; i < ns; i++) switch (sl[i]) {
    case 'Z': out_zv(z[i]); if (!z_wf(z[i])) outs("BADFORMAT"); break;
    case 'Q': out_zv(mpq_numref(q[i])); out_zv(mpq_denref(q[i])); if (!z_wf(mpq_numref(q[i])) || !z_wf(mpq_denref(q[i]))) outs("BADFORMAT"); break;
    case 'l': outl(l[i]); break; case 'd': outl(d[i]); break; case 'h': outl(h[i]); break; default: outl(c[i]); }
  for (int i = 0; i < 8; i++) { mpz_clear(z[i]); mpq_clear(q[i]); }
}
const op_t ops_printf[] = { {"gmp_doscan", op_gmp_doscan}, {"gmp_printf_Z", op_printf_Z}, {"gmp_printf_Q", op_printf_Q}, {"gmp_printf_N", op_printf_N}, {"gmp_printf_M", op_printf_M},
                            {"gmp_snprintf_sweep", op_snprintf_sweep}, {"gmp_printf_mixed", op_printf_mixed}, {"gmp_scan_rt", op_scan_rt},
                            {"gmp_scan_partial", op_scan_partial}, {NULL, NULL} };
/* gmp_printf_F spec conv precbits mant exp2 : "%<spec>F<conv>" of mant * 2^exp2 held exactly: output bytes, return value */
static void op_printf_F(int argc, char **argv)
{
  (void)argc; size_t n = unhexs(argv[1], sb, sizeof sb - 1); sb[n] = 0; char conv = (char)arg_l(argv[2]);
  mpf_t f; mpz_t m; parse_z(argv[4], m); long e = arg_l(argv[5]);
  unsigned long pb = arg_ul(argv[3]), need = (unsigned long)(ABSIZ(m) + 1) * 64; mpf_init2(f, pb > need ? pb : need); mpf_set_z(f, m);
  if (e >= 0) mpf_mul_2exp(f, f, (mp_bitcnt_t)e); else mpf_div_2exp(f, f, (mp_bitcnt_t)(-e));
  char fmt[600]; snprintf(fmt, sizeof fmt, "%%%sF%c", (char *)sb, conv);
  char *p = NULL; int r = gmp_asprintf(&p, fmt, f);
  size_t l = strlen(p); out_bytes((unsigned char *)p, l); outl(r); free_str(p, l + 1);
  mpf_clear(f); mpz_clear(m);
}
const op_t ops_printf2[] = { {"gmp_printf_F", op_printf_F}, {NULL, NULL} };
