/* common.h — shared helpers of the correspondence driver (implementation side).
   Case protocol: one case per input line, "op arg arg ...", integers in hex with
   optional leading '-'.  One output line per case: "<lineno> tok tok ...".
   Parsing/printing of numbers is done here by hand (no mpz_set_str/get_str) so
   that a defect in the library's radix code cannot hide or fake a disagreement
   in another property. */
#ifndef VERIF_COMMON_H
#define VERIF_COMMON_H
#include <stdio.h>
#include <stdlib.h>
#include <string.h>
#include <stdint.h>
#include "mpir.h"
#include "gmp-impl.h"
#include "longlong.h"

typedef void (*op_fn)(int argc, char **argv);
typedef struct { const char *name; op_fn fn; } op_t;

#define GUARD 4                     /* red-zone limbs on each side of a buffer */
#define CANARY 0xA5C3A5C3F00DFACEUL

extern long cur_line;
void outs(const char *s);
void outl(long v);
void outul(unsigned long v);
void out_limbs(mp_srcptr p, mp_size_t n);      /* value of {p,n} in hex, "0" for 0 */
void out_z(mpz_srcptr z);                      /* signed hex value, then the size field */
void out_zv(mpz_srcptr z);                     /* signed hex value only */

long arg_l(const char *s);                      /* signed hex -> long (wraps into 64 bits) */
unsigned long arg_ul(const char *s);
/* parse |hex| into n limbs (high limbs zero); returns 1 if negative */
int parse_limbs(const char *s, mp_ptr p, mp_size_t n);
void parse_z(const char *s, mpz_ptr z);        /* init + set from signed hex */
mp_size_t hex_limbs(const char *s);            /* limbs needed for |hex| */

/* guarded limb buffers */
mp_ptr gbuf_alloc(mp_size_t n);                /* n usable limbs, GUARD canaries on each side */
int gbuf_ok(mp_ptr p, mp_size_t n);            /* 1 if canaries intact */
void gbuf_free(mp_ptr p);

/* check mpz format rules (no leading zero limb, |size| <= alloc, alloc >= 1) */
int z_wf(mpz_srcptr z);

extern const op_t ops_basic[], ops_mul[], ops_div[], ops_bit[], ops_alias[], ops_conv[], ops_q[], ops_hist[], ops_radix[], ops_gcd[], ops_pow[], ops_root[], ops_f[], ops_comb[], ops_io[], ops_printf[], ops_printf2[], ops_rand[];
void out_bytes(const unsigned char *p, size_t n);
double bits_to_double(unsigned long b);
unsigned long double_to_bits(double d);
#endif
