/* ops_gcd.c — C07: gcd, gcdext, lcm, invert, Jacobi/Kronecker. */
#include "common.h"

static void op_gcd(int argc, char **argv)
{ (void)argc; mpz_t a, b, g; parse_z(argv[1], a); parse_z(argv[2], b); mpz_init(g); mpz_realloc2(g, 1);
  int al = (int)arg_l(argv[3]); mpz_ptr pg = al == 1 ? a : al == 2 ? b : g;
  mpz_gcd(pg, a, b); out_z(pg); mpz_clear(a); mpz_clear(b); mpz_clear(g); }
static void op_gcd_ui(int argc, char **argv)
{ (void)argc; mpz_t a, g; parse_z(argv[1], a); mpz_init(g); mpz_realloc2(g, 1);
  mpir_ui r = mpz_gcd_ui(g, a, arg_ul(argv[2])); out_z(g); outul(r);
  mpir_ui r2 = mpz_gcd_ui(NULL, a, arg_ul(argv[2])); if (r2 != r && !(r == 0 && r2 == 0)) { outs("NULL-VARIANT"); outul(r2); }
  mpz_clear(a); mpz_clear(g); }
/* mpz_gcdext A B mode : mode 0 g,s,t ; 1 t = NULL ; 2 s = NULL and t = NULL ; alias bits in mode>=4: 4 g=a, 5 s=a, 6 t=b */
static void op_gcdext(int argc, char **argv)
{
  (void)argc; mpz_t a, b, g, s, t; int mode = (int)arg_l(argv[3]);
  parse_z(argv[1], a); parse_z(argv[2], b); mpz_init(g); mpz_init(s); mpz_init(t);
  mpz_realloc2(g, 1); mpz_realloc2(s, 1); mpz_realloc2(t, 1);
  mpz_ptr pg = g, ps = s, pt = t;
  if (mode == 1) pt = NULL; else if (mode == 2) { ps = NULL; pt = NULL; }
  else if (mode == 4) pg = a; else if (mode == 5) ps = a; else if (mode == 6) pt = b;
  mpz_gcdext(pg, ps, pt, a, b);
  out_z(pg); if (ps) out_z(ps); if (pt) out_z(pt);
  mpz_clear(a); mpz_clear(b); mpz_clear(g); mpz_clear(s); mpz_clear(t);
}
static void op_lcm(int argc, char **argv)
{ (void)argc; mpz_t a, b, l; parse_z(argv[1], a); parse_z(argv[2], b); mpz_init(l); mpz_realloc2(l, 1);
  int al = (int)arg_l(argv[3]); mpz_ptr pl = al == 1 ? a : al == 2 ? b : l;
  mpz_lcm(pl, a, b); out_z(pl); mpz_clear(a); mpz_clear(b); mpz_clear(l); }
static void op_lcm_ui(int argc, char **argv)
{ (void)argc; mpz_t a, l; parse_z(argv[1], a); mpz_init(l); mpz_realloc2(l, 1);
  mpz_lcm_ui(l, a, arg_ul(argv[2])); out_z(l); mpz_clear(a); mpz_clear(l); }
static void op_invert(int argc, char **argv)
{ (void)argc; mpz_t x, n, r; parse_z(argv[1], x); parse_z(argv[2], n); mpz_init(r); mpz_realloc2(r, 1);
  int al = (int)arg_l(argv[3]); mpz_ptr pr = al == 1 ? x : al == 2 ? n : r;
  int ok = mpz_invert(pr, x, n); outl(ok != 0); if (ok) out_zv(pr); mpz_clear(x); mpz_clear(n); mpz_clear(r); }
static void op_ngcd_1(int argc, char **argv)
{ (void)argc; mp_size_t n = arg_l(argv[1]); mp_ptr up = gbuf_alloc(n); parse_limbs(argv[2], up, n);
  outul(mpn_gcd_1(up, n, arg_ul(argv[3]))); if (!gbuf_ok(up, n)) outs("REDZONE"); gbuf_free(up); }
/* mpn_gcd xn X yn Y (Y odd, xn >= yn, top limbs non-zero; operands destroyed) */
static void op_ngcd(int argc, char **argv)
{ (void)argc; mp_size_t xn = arg_l(argv[1]), yn = arg_l(argv[3]);
  mp_ptr xp = gbuf_alloc(xn + 1), yp = gbuf_alloc(yn + 1), rp = gbuf_alloc(yn + 1);
  parse_limbs(argv[2], xp, xn); parse_limbs(argv[4], yp, yn);
  mp_size_t rn = mpn_gcd(rp, xp, xn, yp, yn); out_limbs(rp, rn);
  if (!gbuf_ok(xp, xn + 1) || !gbuf_ok(yp, yn + 1) || !gbuf_ok(rp, yn + 1)) outs("REDZONE");
  gbuf_free(xp); gbuf_free(yp); gbuf_free(rp); }
static void op_kronecker(int argc, char **argv)
{ (void)argc; mpz_t a, b; parse_z(argv[1], a); parse_z(argv[2], b);
  outl(mpz_kronecker(a, b)); if (mpz_odd_p(b)) { outl(mpz_jacobi(a, b)); } else outl(0);
  mpz_clear(a); mpz_clear(b); }
static void op_kronecker_si(int argc, char **argv)
{ (void)argc; mpz_t a; parse_z(argv[1], a); mpir_si b = arg_l(argv[2]);
  outl(mpz_kronecker_si(a, b)); outl(mpz_si_kronecker(b, a)); mpz_clear(a); }
static void op_kronecker_ui(int argc, char **argv)
{ (void)argc; mpz_t a; parse_z(argv[1], a); mpir_ui b = arg_ul(argv[2]);
  outl(mpz_kronecker_ui(a, b)); outl(mpz_ui_kronecker(b, a)); mpz_clear(a); }
/* gcdcheck A B G S T: certificate check is done by the model; echo 1 */
static void op_gcdcheck(int argc, char **argv) { (void)argc; (void)argv; outl(1); }

const op_t ops_gcd[] = {
  {"mpz_gcd", op_gcd}, {"mpz_gcd_ui", op_gcd_ui}, {"mpz_gcdext", op_gcdext}, {"mpz_lcm", op_lcm}, {"mpz_lcm_ui", op_lcm_ui},
  {"mpz_invert", op_invert}, {"mpn_gcd_1", op_ngcd_1}, {"mpn_gcd", op_ngcd},
  {"mpz_kronecker", op_kronecker}, {"mpz_kronecker_si", op_kronecker_si}, {"mpz_kronecker_ui", op_kronecker_ui},
  {"gcdcheck", op_gcdcheck},
  {NULL, NULL}
};
