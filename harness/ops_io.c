/* ops_io.c — C17: mpz_export / mpz_import (every word size, order, endianness, nail count, buffer
   misalignment, stale limbs above SIZ), the raw format of mpz_out_raw / mpz_inp_raw, text stream
   round trips, output streams failing after k bytes (fopencookie, unbuffered), input streams ending
   after k bytes (fmemopen). */
#define _GNU_SOURCE
#include "common.h"
#include <sys/types.h>

static __thread unsigned char sbuf[1 << 17];
static size_t unhexs(const char *s, unsigned char *buf, size_t cap)
{
  size_t n = 0; if (s[0] == 'x' && s[1] == ':') s += 2;
  while (s[0] && s[1] && n < cap) { unsigned v; sscanf(s, "%2x", &v); buf[n++] = (unsigned char)v; s += 2; }
  return n;
}
/* z with value from hex and `stale` extra allocated limbs above SIZ filled with garbage */
static void make_z(mpz_ptr z, const char *hex, long stale)
{
  parse_z(hex, z);
  if (stale > 0) {
    mp_size_t n = ABSIZ(z); mpz_realloc(z, n + stale);     /* mpz_realloc keeps the value */
    for (long i = 0; i < stale; i++) PTR(z)[n + i] = 0xFFFFFFFFFFFFFFFFUL - (mp_limb_t)i * 0x0101010101010101UL;
  }
}
/* mpz_export X size order endian nails align stale nullrop : bytes, count */
static void op_export(int argc, char **argv)
{
  (void)argc; mpz_t z; size_t size = arg_ul(argv[2]); int order = (int)arg_l(argv[3]), endian = (int)arg_l(argv[4]);
  size_t nails = arg_ul(argv[5]); unsigned align = (unsigned)arg_ul(argv[6]); long stale = arg_l(argv[7]); int nullrop = (int)arg_l(argv[8]);
  make_z(z, argv[1], stale);
  size_t numb = 8 * size - nails, bits = mpz_sgn(z) ? mpz_sizeinbase(z, 2) : 0, expect = (bits + numb - 1) / numb;
  size_t count = 12345;
  if (nullrop) {
    void *p = mpz_export(NULL, &count, order, size, endian, nails, z);
    if (mpz_sgn(z) == 0) { out_bytes((unsigned char *)"", 0); outul(count); if (p != NULL) outs("NONNULL-FOR-ZERO"); }
    else { out_bytes((unsigned char *)p, count * size); outul(count);
           void (*fr)(void *, size_t); mp_get_memory_functions(NULL, NULL, &fr); fr(p, count * size); }
  } else {
    size_t cap = expect * size; unsigned char *raw = (unsigned char *)malloc(cap + 64 + 16);
    /* base address aligned to 16, then offset by align; at least 16 canary bytes before and after */
    unsigned char *al = (unsigned char *)(((uintptr_t)raw + 15) & ~(uintptr_t)15);
    unsigned char *data = al + 32 + align;
    memset(al, 0xC9, cap + 64);
    void *p = mpz_export(data, &count, order, size, endian, nails, z);
    if (p != data) outs("RETURN-POINTER");
    out_bytes(data, (count <= expect ? count : expect) * size); outul(count);
    int bad = 0; for (unsigned char *q = al; q < data; q++) bad |= *q != 0xC9;
    for (unsigned char *q = data + cap; q < al + cap + 64; q++) bad |= *q != 0xC9;
    if (bad) outs("WROTE-OUTSIDE");
    free(raw);
  }
  mpz_clear(z);
}
/* mpz_import x:bytes count size order endian nails align : value (destination starts with another value) */
static void op_import(int argc, char **argv)
{
  (void)argc; size_t n = unhexs(argv[1], sbuf, sizeof sbuf); size_t count = arg_ul(argv[2]), size = arg_ul(argv[3]);
  int order = (int)arg_l(argv[4]), endian = (int)arg_l(argv[5]); size_t nails = arg_ul(argv[6]); unsigned align = (unsigned)arg_ul(argv[7]);
  if (n < count * size) { outs("SHORT-INPUT"); return; }
  unsigned char *raw = (unsigned char *)malloc(n + 64), *al = (unsigned char *)(((uintptr_t)raw + 15) & ~(uintptr_t)15), *data = al + 16 + align;
  memcpy(data, sbuf, n);
  mpz_t z; mpz_init_set_si(z, -99);
  mpz_import(z, count, order, size, endian, nails, data);
  out_zv(z); if (!z_wf(z)) outs("BADFORMAT");
  if (memcmp(data, sbuf, n)) outs("INPUT-MODIFIED");
  mpz_clear(z); free(raw);
}
/* mpz_out_raw X : bytes, return value */
static void op_out_raw(int argc, char **argv)
{
  (void)argc; mpz_t x; make_z(x, argv[1], argc > 2 ? arg_l(argv[2]) : 0);
  char *mb = NULL; size_t ml = 0; FILE *fp = open_memstream(&mb, &ml);
  size_t r = mpz_out_raw(fp, x); fclose(fp);
  out_bytes((unsigned char *)mb, ml); outul(r); free(mb); mpz_clear(x);
}
static FILE *open_prefix(const unsigned char *p, size_t k)
{
  FILE *fp = fmemopen(k ? (void *)p : (void *)"", k ? k : 1, "rb"); if (k == 0) fgetc(fp);
  return fp;
}
/* after a read, whatever it returned, the destination must accept a new value and clear */
static void z_reuse(mpz_ptr x) { if (!z_wf(x)) outs("BADFORMAT"); mpz_set_ui(x, 3); mpz_mul_2exp(x, x, 200); if (mpz_sizeinbase(x, 2) != 202) outs("REUSE-FAILED"); }
/* mpz_inp_raw x:bytes : return, value */
static void op_inp_raw(int argc, char **argv)
{
  (void)argc; size_t n = unhexs(argv[1], sbuf, sizeof sbuf);
  mpz_t x; mpz_init_set_ui(x, 77); FILE *fp = open_prefix(sbuf, n);
  size_t r = mpz_inp_raw(x, fp); outul(r); if (r) out_zv(x);
  if (!z_wf(x)) outs("BADFORMAT");
  z_reuse(x); fclose(fp); mpz_clear(x);
}
/* io_rtrunc fn base x:bytes : for every k = 0..len the stream holds only the first k bytes: return value, value(s) */
static void op_rtrunc(int argc, char **argv)
{
  (void)argc; int fn = (int)arg_l(argv[1]); int base = (int)arg_l(argv[2]); size_t n = unhexs(argv[3], sbuf, sizeof sbuf);
  for (size_t k = 0; k <= n; k++) {
    FILE *fp = open_prefix(sbuf, k);
    if (fn == 1 || fn == 2) {
      mpz_t x; mpz_init_set_ui(x, 77);
      size_t r = fn == 1 ? mpz_inp_str(x, fp, base) : mpz_inp_raw(x, fp);
      outul(r); if (r) out_zv(x); z_reuse(x); mpz_clear(x);
    } else if (fn == 3) {
      mpq_t q; mpq_init(q); mpq_set_si(q, -7, 9);
      size_t r = mpq_inp_str(q, fp, base);
      outul(r); if (r) { out_zv(mpq_numref(q)); out_zv(mpq_denref(q)); }
      z_reuse(mpq_numref(q)); z_reuse(mpq_denref(q)); mpq_clear(q);
    } else if (fn == 4) {
      mpf_t f; mpf_init2(f, 128); mpf_set_ui(f, 5);
      size_t r = mpf_inp_str(f, fp, base); outul(r);
      mpf_set_ui(f, 9); if (mpf_cmp_ui(f, 9)) outs("REUSE-FAILED"); mpf_clear(f);
    } else outs("UNKNOWN-FN");
    fclose(fp);
  }
}
/* a stream that accepts `room` bytes and then fails */
typedef struct { size_t room; unsigned char *got; size_t n, cap; } sink_t;
static ssize_t sink_write(void *c, const char *buf, size_t size)
{
  sink_t *s = (sink_t *)c; size_t take = size <= s->room ? size : s->room;
  if (s->n + take > s->cap) take = s->cap - s->n;
  memcpy(s->got + s->n, buf, take); s->n += take; s->room -= take;
  return (ssize_t)take;                 /* short count or 0: the stream's error flag is set by stdio */
}
static FILE *open_sink(sink_t *s, size_t room, unsigned char *store, size_t cap)
{
  cookie_io_functions_t io = { NULL, sink_write, NULL, NULL };
  s->room = room; s->got = store; s->n = 0; s->cap = cap;
  FILE *fp = fopencookie(s, "w", io); setvbuf(fp, NULL, _IONBF, 0);
  return fp;
}
/* io_wfail fn args... : the complete output, its return value, then the return values when the stream
   accepts only k bytes, k = 0..len+1; bytes accepted before the fault must be a prefix of the output.
   fns: 1 zstr base X | 2 zraw X | 3 qstr base N D | 4 fstr base ndigits precbits mant exp2 | 5 "v=%Zd;\n" (conv 1: %Zx) X | 6 "%Qd!" conv N D */
static long run_out(int fn, char **a, FILE *fp)
{
  long r = -2;
  if (fn == 1) { mpz_t x; parse_z(a[1], x); r = (long)mpz_out_str(fp, (int)arg_l(a[0]), x); mpz_clear(x); }
  else if (fn == 2) { mpz_t x; parse_z(a[0], x); r = (long)mpz_out_raw(fp, x); mpz_clear(x); }
  else if (fn == 3) { mpq_t q; mpz_t n, d; parse_z(a[1], n); parse_z(a[2], d); mpq_init(q); mpz_set(mpq_numref(q), n); mpz_set(mpq_denref(q), d);
                                  r = (long)mpq_out_str(fp, (int)arg_l(a[0]), q); mpq_clear(q); mpz_clear(n); mpz_clear(d); }
  else if (fn == 4) { mpf_t f; mpz_t m; parse_z(a[3], m); long e = arg_l(a[4]); mpf_init2(f, arg_ul(a[2])); mpf_set_z(f, m);
                                  if (e >= 0) mpf_mul_2exp(f, f, (mp_bitcnt_t)e); else mpf_div_2exp(f, f, (mp_bitcnt_t)(-e));
                                  r = (long)mpf_out_str(fp, (int)arg_l(a[0]), arg_ul(a[1]), f); mpf_clear(f); mpz_clear(m); }
  else if (fn == 5) { mpz_t x; parse_z(a[1], x); r = arg_l(a[0]) ? gmp_fprintf(fp, "v=%Zx;\n", x) : gmp_fprintf(fp, "v=%Zd;\n", x); mpz_clear(x); }
  else if (fn == 6) { mpq_t q; mpz_t n, d; parse_z(a[1], n); parse_z(a[2], d); mpq_init(q); mpz_set(mpq_numref(q), n); mpz_set(mpq_denref(q), d);
                                 r = arg_l(a[0]) ? gmp_fprintf(fp, "%Qx!", q) : gmp_fprintf(fp, "%Qd!", q); mpq_clear(q); mpz_clear(n); mpz_clear(d); }
  return r;
}
static void op_wfail(int argc, char **argv)
{
  (void)argc; int fn = (int)arg_l(argv[1]); char **a = argv + 2;
  char *mb = NULL; size_t ml = 0; FILE *fp = open_memstream(&mb, &ml);
  long r = run_out(fn, a, fp); fclose(fp);
  if (r == -2) { outs("UNKNOWN-FN"); free(mb); return; }
  out_bytes((unsigned char *)mb, ml); outl(r);
  unsigned char *store = (unsigned char *)malloc(ml + 16);
  for (size_t k = 0; k <= ml + 1; k++) {
    sink_t s; FILE *f = open_sink(&s, k, store, ml + 16);
    long rk = run_out(fn, a, f); fclose(f);
    outl(rk);
    if (s.n > ml || memcmp(store, mb, s.n)) outs("NOT-A-PREFIX");
  }
  free(store); free(mb);
}
/* mpf_io base ndigits precbits mant exp2 : out_str to memory, inp_str back into a variable of the same
   precision: bytes, written, read, then original and re-read values as size exp limbs */
static void op_mpf_io(int argc, char **argv)
{
  (void)argc; int base = (int)arg_l(argv[1]); size_t nd = arg_ul(argv[2]); unsigned long pb = arg_ul(argv[3]);
  mpf_t f, g; mpz_t m; parse_z(argv[4], m); long e = arg_l(argv[5]); mpf_init2(f, pb); mpf_init2(g, pb); mpf_set_z(f, m);
  if (e >= 0) mpf_mul_2exp(f, f, (mp_bitcnt_t)e); else mpf_div_2exp(f, f, (mp_bitcnt_t)(-e));
  char *mb = NULL; size_t ml = 0; FILE *fp = open_memstream(&mb, &ml);
  size_t w = mpf_out_str(fp, base, nd, f); fclose(fp);
  out_bytes((unsigned char *)mb, ml); outul(w);
  FILE *in = open_prefix((unsigned char *)mb, ml); size_t r = mpf_inp_str(g, in, -base); fclose(in);     /* negative base: the exponent is decimal, as out_str writes it */
  outul(r);
  outl(SIZ(f)); outl(EXP(f)); out_limbs(PTR(f), ABSIZ(f));
  outl(SIZ(g)); outl(EXP(g)); out_limbs(PTR(g), ABSIZ(g));
  outl(PREC(f));
  free(mb); mpf_clear(f); mpf_clear(g); mpz_clear(m);
}
const op_t ops_io[] = { {"mpz_export", op_export}, {"mpz_import", op_import}, {"mpz_out_raw", op_out_raw}, {"mpz_inp_raw", op_inp_raw},
                        {"io_rtrunc", op_rtrunc}, {"io_wfail", op_wfail}, {"mpf_io", op_mpf_io}, {NULL, NULL} };
