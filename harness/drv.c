/* drv.c — implementation-side correspondence driver: links /repo's libmpir.a.
   Installs a recording allocator (through the public mp_set_memory_functions):
   red zones around every block, exact-size check on reallocate/free, realloc
   always moves and poisons the old block, live-block accounting per case. */
#include "common.h"
#include <unistd.h>
#include <pthread.h>

long cur_line = 0;
static int first_tok = 1;
static __thread FILE *OUT;
static FILE *MAINOUT;        /* the process's real output: a signal inside a worker thread reports there */
static pthread_mutex_t alloc_mu = PTHREAD_MUTEX_INITIALIZER;
static int threaded = 0;
#define LOCK() do { if (threaded) pthread_mutex_lock(&alloc_mu); } while (0)
#define UNLOCK() do { if (threaded) pthread_mutex_unlock(&alloc_mu); } while (0)

/* ------------------------------------------------------------------ output */
static void sep(void) { fputc(' ', OUT); }
void outs(const char *s) { sep(); fputs(s, OUT); }
void outl(long v) { sep(); if (v < 0) fprintf(OUT, "-%lx", (unsigned long)(-(unsigned long)v)); else fprintf(OUT, "%lx", (unsigned long)v); }
void outul(unsigned long v) { sep(); fprintf(OUT, "%lx", v); }
void out_limbs(mp_srcptr p, mp_size_t n)
{
  sep();
  while (n > 0 && p[n-1] == 0) n--;
  if (n == 0) { fputc('0', OUT); return; }
  fprintf(OUT, "%lx", (unsigned long)p[n-1]);
  for (mp_size_t i = n-2; i >= 0; i--) fprintf(OUT, "%016lx", (unsigned long)p[i]);
}
void out_zv(mpz_srcptr z)
{
  mp_size_t n = ABSIZ(z);
  if (SIZ(z) < 0) { sep(); fputc('-', OUT);
    while (n > 0 && PTR(z)[n-1] == 0) n--;
    if (n == 0) { fputc('0', OUT); return; }
    fprintf(OUT, "%lx", (unsigned long)PTR(z)[n-1]);
    for (mp_size_t i = n-2; i >= 0; i--) fprintf(OUT, "%016lx", (unsigned long)PTR(z)[i]);
  } else out_limbs(PTR(z), n);
}
void out_z(mpz_srcptr z)
{
  out_zv(z);
  outl((long)SIZ(z));
  if (!z_wf(z)) fputs(" BADFORMAT", OUT);
}
int z_wf(mpz_srcptr z)
{
  mp_size_t n = ABSIZ(z);
  if (ALLOC(z) < 1) return 0;
  if (n > ALLOC(z)) return 0;
  if (n > 0 && PTR(z)[n-1] == 0) return 0;
  return 1;
}

/* ------------------------------------------------------------------ input */
static int hexval(int c)
{
  if (c >= '0' && c <= '9') return c - '0';
  if (c >= 'a' && c <= 'f') return c - 'a' + 10;
  if (c >= 'A' && c <= 'F') return c - 'A' + 10;
  return -1;
}
long arg_l(const char *s)
{
  int neg = 0; unsigned long v = 0;
  if (*s == '-') { neg = 1; s++; }
  for (; *s; s++) v = (v << 4) | (unsigned long)hexval(*s);
  return neg ? (long)(0UL - v) : (long)v;
}
unsigned long arg_ul(const char *s) { return (unsigned long)arg_l(s); }
mp_size_t hex_limbs(const char *s)
{
  if (*s == '-') s++;
  while (*s == '0') s++;
  size_t l = strlen(s);
  return (mp_size_t)((l + 15) / 16);
}
int parse_limbs(const char *s, mp_ptr p, mp_size_t n)
{
  int neg = 0;
  if (*s == '-') { neg = 1; s++; }
  size_t l = strlen(s);
  for (mp_size_t i = 0; i < n; i++) p[i] = 0;
  for (size_t k = 0; k < l; k++) {
    int h = hexval(s[l-1-k]);
    mp_size_t li = (mp_size_t)(k / 16);
    if (li < n) p[li] |= ((mp_limb_t)h) << (4 * (k % 16));
  }
  return neg;
}
void parse_z(const char *s, mpz_ptr z)
{
  mp_size_t n = hex_limbs(s);
  /* exactly as many limbs as the value needs (mpz_init2 would add a spare one): an operation that must grow the
     object then really reallocates, and a pointer kept across that realloc reads the poisoned old block */
  mpz_init(z); _mpz_realloc(z, n > 0 ? n : 1);
  int neg = parse_limbs(s, PTR(z), n);
  while (n > 0 && PTR(z)[n-1] == 0) n--;
  SIZ(z) = neg ? -n : n;
}

/* ------------------------------------------------------------------ guarded buffers */
mp_ptr gbuf_alloc(mp_size_t n)
{
  mp_ptr b = (mp_ptr) malloc((size_t)(n + 2*GUARD + 1) * sizeof(mp_limb_t));
  if (!b) { fprintf(stderr, "oom\n"); exit(3); }
  for (int i = 0; i < GUARD; i++) { b[i] = CANARY; b[GUARD + n + i] = CANARY; }
  for (mp_size_t i = 0; i < n; i++) b[GUARD + i] = 0xDEADBEEFDEADBEEFUL;
  return b + GUARD;
}
int gbuf_ok(mp_ptr p, mp_size_t n)
{
  for (int i = 0; i < GUARD; i++) if (p[-1-i] != CANARY || p[n+i] != CANARY) return 0;
  return 1;
}
void gbuf_free(mp_ptr p) { free(p - GUARD); }

/* ------------------------------------------------------------------ recording allocator */
#define RZ 32                            /* red-zone bytes on each side */
typedef struct blk { struct blk *next, *prev; size_t size; unsigned long id; } blk;
static blk *live = NULL;
long live_blocks = 0;
unsigned long alloc_serial = 0;
long alloc_errors = 0;                   /* contract violations seen in this case */
long alloc_events = 0;
int alloc_trace = 0;                     /* when set, events are appended to trace_buf */
char trace_buf[1 << 16]; size_t trace_len = 0;

static void tr(const char *fmt, unsigned long a, unsigned long b)
{
  if (!alloc_trace) return;
  if (trace_len + 64 < sizeof trace_buf)
    trace_len += (size_t) snprintf(trace_buf + trace_len, 64, fmt, a, b);
}
static unsigned char *user(blk *b) { return (unsigned char *)(b + 1) + RZ; }
static blk *hdr(void *p) { return (blk *)((unsigned char *)p - RZ) - 1; }
static int rz_ok(blk *b)
{
  unsigned char *lo = (unsigned char *)(b + 1), *hi = user(b) + b->size;
  for (int i = 0; i < RZ; i++) if (lo[i] != 0xCB || hi[i] != 0xCE) return 0;
  return 1;
}
static blk *find_live(void *p)
{
  for (blk *b = live; b; b = b->next) if (user(b) == (unsigned char *)p) return b;
  return NULL;
}
static void *rec_alloc_u(size_t n)
{
  blk *b = (blk *) malloc(sizeof(blk) + 2*RZ + n);
  if (!b) { fprintf(stderr, "oom\n"); exit(3); }
  b->size = n; b->id = ++alloc_serial; b->prev = NULL; b->next = live;
  if (live) live->prev = b; live = b; live_blocks++; alloc_events++;
  memset((unsigned char *)(b + 1), 0xCB, RZ);
  memset(user(b), 0xAA, n);
  memset(user(b) + n, 0xCE, RZ);
  tr("A%lx ", (unsigned long)n, 0);
  return user(b);
}
static void unlink_blk(blk *b)
{
  if (b->prev) b->prev->next = b->next; else live = b->next;
  if (b->next) b->next->prev = b->prev;
  live_blocks--;
}
static void rec_free_u(void *p, size_t n)
{
  blk *b = find_live(p);
  alloc_events++;
  tr("F%lx ", (unsigned long)n, 0);
  if (!b) { alloc_errors++; return; }         /* not a live block: do not touch it */
  if (b->size != n) alloc_errors++;
  if (!rz_ok(b)) alloc_errors++;
  unlink_blk(b);
  memset(user(b), 0xDD, b->size); __asm__ __volatile__("" : : "r"(user(b)) : "memory");   /* keep the poison: the compiler drops stores to a block that is freed next */
  free(b);
}
static void *rec_realloc_u(void *p, size_t old, size_t new_)
{
  blk *b = find_live(p);
  alloc_events++;
  tr("R%lx,%lx ", (unsigned long)old, (unsigned long)new_);
  if (!b) { alloc_errors++; return rec_alloc_u(new_); }
  if (b->size != old) alloc_errors++;
  if (!rz_ok(b)) alloc_errors++;
  int t = alloc_trace; alloc_trace = 0;         /* suppress the inner A event */
  void *q = rec_alloc_u(new_); alloc_events--;
  alloc_trace = t;
  memcpy(q, p, b->size < new_ ? b->size : new_);
  unlink_blk(b);
  memset(user(b), 0xDD, b->size); __asm__ __volatile__("" : : "r"(user(b)) : "memory");   /* keep the poison: the compiler drops stores to a block that is freed next */
  free(b);
  return q;
}
static void *rec_alloc(size_t n) { LOCK(); void *p = rec_alloc_u(n); UNLOCK(); return p; }
static void rec_free(void *p, size_t n) { LOCK(); rec_free_u(p, n); UNLOCK(); }
static void *rec_realloc(void *p, size_t o, size_t n) { LOCK(); void *q = rec_realloc_u(p, o, n); UNLOCK(); return q; }
int all_redzones_ok(void)
{
  for (blk *b = live; b; b = b->next) if (!rz_ok(b)) return 0;
  return 1;
}

/* ------------------------------------------------------------------ crashes */
#include <signal.h>
static void on_signal(int sig)
{
  /* report the case that died, flush what was printed so far, and stop: the Python
     side re-runs the cases that follow */
  FILE *o = MAINOUT ? MAINOUT : OUT;
  fprintf(o, " CRASH-SIGNAL %d\n", sig);
  fflush(o);
  _exit(100 + sig);
}

/* ------------------------------------------------------------------ watched globals (C15)
   VERIF_WATCH=<file of "hexaddr size name" lines, link-time addresses from nm -S of this executable>:
   globals_snapshot copies the bytes of every listed object, globals_compare names the ones that changed since. */
extern char __executable_start;
typedef struct { unsigned char *p; size_t n; char name[96]; unsigned char *copy; } watch_t;
static watch_t *watch; static int nwatch;
static void op_globals_snapshot(int argc, char **argv)
{
  (void)argc; (void)argv; const char *fn = getenv("VERIF_WATCH"); if (!fn) { outs("NO-WATCH-FILE"); return; }
  FILE *f = fopen(fn, "r"); if (!f) { outs("NO-WATCH-FILE"); return; }
  unsigned long base_link = 0, a, n; char nm[96]; nwatch = 0; watch = (watch_t *)calloc(4096, sizeof(watch_t));
  while (fscanf(f, "%lx %lx %95s", &a, &n, nm) == 3) {
    if (!strcmp(nm, "__executable_start")) { base_link = a; continue; }
    if (nwatch < 4096) { watch[nwatch].p = (unsigned char *)a; watch[nwatch].n = n; strcpy(watch[nwatch].name, nm); nwatch++; }
  }
  fclose(f);
  long off = (long)((unsigned long)&__executable_start - base_link);
  for (int i = 0; i < nwatch; i++) { watch[i].p += off; watch[i].copy = (unsigned char *)malloc(watch[i].n ? watch[i].n : 1); memcpy(watch[i].copy, watch[i].p, watch[i].n); }
  outl(nwatch);
}
static void op_globals_compare(int argc, char **argv)
{
  (void)argc; (void)argv; int changed = 0;
  for (int i = 0; i < nwatch; i++) if (memcmp(watch[i].copy, watch[i].p, watch[i].n)) { outs(watch[i].name); changed++; }
  outl(changed);
}
static const op_t ops_globals[] = { {"globals_snapshot", op_globals_snapshot}, {"globals_compare", op_globals_compare}, {NULL, NULL} };

/* ------------------------------------------------------------------ dispatch */
#ifdef KERN_ONLY
extern const op_t ops_kern[];
static const op_t *tables[] = { ops_kern, NULL };
#else
static const op_t *tables[] = { ops_basic, ops_mul, ops_div, ops_bit, ops_alias, ops_conv, ops_q, ops_hist, ops_radix, ops_gcd, ops_pow, ops_root, ops_f, ops_comb, ops_io, ops_printf, ops_printf2, ops_rand, ops_globals, NULL };
#endif

static op_fn lookup(const char *name)
{
  for (int t = 0; tables[t]; t++)
    for (const op_t *o = tables[t]; o->name; o++)
      if (strcmp(o->name, name) == 0) return o->fn;
  return NULL;
}

/* ------------------------------------------------------------------ threads (C15)
   VERIF_THREADS=N: every case is executed by N threads at the same time, each on its own objects and its own
   output buffer; the outputs must be byte-identical, and one of them is printed. */
typedef struct { op_fn f; int ac; char **av; char *buf; size_t len; pthread_barrier_t *bar; } tjob;
static void *trun(void *p)
{
  tjob *j = (tjob *)p;
  OUT = open_memstream(&j->buf, &j->len);
  pthread_barrier_wait(j->bar);
  j->f(j->ac, j->av);
  fclose(OUT);
  return NULL;
}
static void run_threaded(op_fn f, int ac, char **av, int nthreads)
{
  pthread_t th[64]; tjob job[64]; pthread_barrier_t bar; FILE *mainout = OUT;
  if (nthreads > 64) nthreads = 64;
  pthread_barrier_init(&bar, NULL, (unsigned)nthreads);
  for (int i = 0; i < nthreads; i++) { job[i].f = f; job[i].ac = ac; job[i].av = av; job[i].buf = NULL; job[i].len = 0; job[i].bar = &bar; pthread_create(&th[i], NULL, trun, &job[i]); }
  for (int i = 0; i < nthreads; i++) pthread_join(th[i], NULL);
  pthread_barrier_destroy(&bar);
  OUT = mainout;
  fwrite(job[0].buf, 1, job[0].len, OUT);
  for (int i = 1; i < nthreads; i++)
    if (job[i].len != job[0].len || memcmp(job[i].buf, job[0].buf, job[0].len)) { outs("THREAD-DIFFERS"); outl(i); break; }
  for (int i = 0; i < nthreads; i++) free(job[i].buf);
}

int main(int argc, char **argv)
{
  (void)argc; (void)argv;
  char *line = NULL; size_t cap = 0; ssize_t len;
  char **av = NULL; size_t avcap = 0;
  OUT = stdout; MAINOUT = stdout;
  static char obuf[1 << 20];
  setvbuf(stdout, obuf, _IOFBF, sizeof obuf);
  mp_set_memory_functions(rec_alloc, rec_realloc, rec_free);
  signal(SIGSEGV, on_signal); signal(SIGFPE, on_signal); signal(SIGABRT, on_signal); signal(SIGBUS, on_signal); signal(SIGILL, on_signal); signal(SIGALRM, on_signal);
  int nthreads = getenv("VERIF_THREADS") ? atoi(getenv("VERIF_THREADS")) : 1; threaded = nthreads > 1;
  unsigned case_timeout = getenv("VERIF_CASE_TIMEOUT") ? (unsigned) atoi(getenv("VERIF_CASE_TIMEOUT")) : 120;
  while ((len = getline(&line, &cap, stdin)) >= 0) {
    cur_line++;
    while (len > 0 && (line[len-1] == '\n' || line[len-1] == '\r')) line[--len] = 0;
    if (len == 0 || line[0] == '#') continue;
    int ac = 0;
    for (char *tok = strtok(line, " \t"); tok; tok = strtok(NULL, " \t")) {
      if ((size_t)ac + 2 > avcap) { avcap = avcap ? 2 * avcap : 256; av = (char **) realloc(av, avcap * sizeof(char *)); if (!av) exit(3); }
      av[ac++] = tok;
    }
    if (av) av[ac] = NULL;
    if (ac == 0) continue;
    fprintf(OUT, "%ld", cur_line);
    first_tok = 0;
    alarm(case_timeout);                 /* a case that hangs is reported (signal 14), not waited for */
    op_fn f = lookup(av[0]);
    long live0 = live_blocks; alloc_errors = 0;
    if (!f) outs("UNKNOWN-OP");
    else if (nthreads > 1 && strncmp(av[0], "globals_", 8)) run_threaded(f, ac, av, nthreads);
    else f(ac, av);
    alarm(0);
    if (live_blocks != live0) { outs("LEAK"); outl(live_blocks - live0); }
    if (alloc_errors) { outs("ALLOC-CONTRACT"); outl(alloc_errors); }
    if (!all_redzones_ok()) outs("HEAP-REDZONE");
    fputc('\n', OUT);
  }
  fflush(OUT);
  return 0;
}
