/* alias.h — descriptor of a public function for the alias harness (C05). */
#ifndef VERIF_ALIAS_H
#define VERIF_ALIAS_H
typedef struct {
  const char *name;
  const char *kinds;      /* one char per argument: Z z Q q F f (objects), u s b i n (integer scalars), d (double) */
  char ret;               /* v i u s d b */
  void (*th)(void **o, const unsigned long *s, const double *dv, unsigned long *ret, double *dret);
} fdesc;
extern const fdesc alias_table[];
#endif
