/* ops_radix.c — C06 (and the string part of C17): radix conversion entry points.
   Byte strings travel as x:<hex>. */
#include "common.h"

static size_t unhexs(const char *s, unsigned char *buf, size_t cap)
{ size_t n = 0; if (s[0] == 'x' && s[1] == ':') s += 2; while (s[0] && s[1] && n < cap) { unsigned v; sscanf(s, "%2x", &v); buf[n++] = (unsigned char)v; s += 2; } return n; }
void out_bytes(const unsigned char *p, size_t n)
{ char *b = (char *) malloc(2 * n + 3); b[0] = 'x'; b[1] = ':'; for (size_t i = 0; i < n; i++) sprintf(b + 2 + 2 * i, "%02x", p[i]); b[2 + 2 * n] = 0; outs(b); free(b); }
static __thread unsigned char sbuf[1 << 20];

/* mpz_set_str base x:bytes : return value, and the value when accepted; mpz_init_set_str must agree */
static void op_set_str(int argc, char **argv)
{
  (void)argc; int base = (int)arg_l(argv[1]); size_t n = unhexs(argv[2], sbuf, sizeof sbuf - 1); sbuf[n] = 0;
  mpz_t x, y; mpz_init(x); mpz_realloc2(x, 1); mpz_set_ui(x, 77);
  int r = mpz_set_str(x, (char *)sbuf, base);
  int r2 = mpz_init_set_str(y, (char *)sbuf, base);
  outl(r);
  if (r == 0) out_zv(x);
  if (r != r2 || (r == 0 && mpz_cmp(x, y) != 0)) outs("INIT_SET_STR-DIFFERS");
  if (!z_wf(x) || !z_wf(y)) outs("BADFORMAT");
  mpz_clear(x); mpz_clear(y);
}
/* mpz_get_str base X : the string, mpz_sizeinbase(X, |base|) */
static void op_get_str(int argc, char **argv)
{
  (void)argc; int base = (int)arg_l(argv[1]); mpz_t x; parse_z(argv[2], x);
  int ab = base < 0 ? -base : base;
  size_t sib = mpz_sizeinbase(x, ab);
  char *s = mpz_get_str(NULL, base, x); size_t l = strlen(s);
  out_bytes((unsigned char *)s, l); outul(sib);
  if (l + 1 > sib + 2) outs("LONGER-THAN-SIZEINBASE+2");
  /* caller-supplied buffer of exactly sizeinbase + 2 bytes with canaries */
  unsigned char *b = (unsigned char *) malloc(sib + 2 + 16); memset(b, 0x5A, sib + 2 + 16);
  mpz_get_str((char *)b + 8, base, x);
  for (int i = 0; i < 8; i++) if (b[i] != 0x5A || b[8 + sib + 2 + i] != 0x5A) { outs("BUFFER-OVERRUN"); break; }
  if (strcmp((char *)b + 8, s) != 0) outs("BUFFER-VARIANT-DIFFERS");
  free(b);
  void (*fr)(void *, size_t); mp_get_memory_functions(NULL, NULL, &fr); fr(s, l + 1);
  mpz_clear(x);
}
static void op_sizeinbase(int argc, char **argv)
{ (void)argc; mpz_t x; parse_z(argv[2], x); outul(mpz_sizeinbase(x, (int)arg_l(argv[1]))); mpz_clear(x); }
/* mpz_out_str base X : bytes written, return value */
static void op_out_str(int argc, char **argv)
{
  (void)argc; int base = (int)arg_l(argv[1]); mpz_t x; parse_z(argv[2], x);
  char *mb = NULL; size_t ml = 0; FILE *fp = open_memstream(&mb, &ml);
  size_t r = mpz_out_str(fp, base, x); fclose(fp);
  out_bytes((unsigned char *)mb, ml); outul(r); free(mb); mpz_clear(x);
}
/* mpz_inp_str base x:bytes : return value (bytes read, 0 = error), value when accepted, next byte of the stream (-1 at EOF) */
static void op_inp_str(int argc, char **argv)
{
  (void)argc; int base = (int)arg_l(argv[1]); size_t n = unhexs(argv[2], sbuf, sizeof sbuf);
  mpz_t x; mpz_init(x); mpz_realloc2(x, 1); mpz_set_ui(x, 77);
  FILE *fp = fmemopen(n ? sbuf : (unsigned char *)"", n ? n : 1, "rb"); if (n == 0) fgetc(fp);
  size_t r = mpz_inp_str(x, fp, base);
  outul(r); if (r) out_zv(x);
  if (!z_wf(x)) outs("BADFORMAT");
  fclose(fp); mpz_clear(x);
}
/* mpn_get_str base n X : digit values (not ASCII) ; mpn_set_str base x:digitvalues */
static void op_nget_str(int argc, char **argv)
{
  (void)argc; int base = (int)arg_l(argv[1]); mp_size_t n = arg_l(argv[2]);
  mp_ptr up = gbuf_alloc(n + 1); parse_limbs(argv[3], up, n);
  size_t cap = (size_t)(n * 64 / 1) + 8; unsigned char *s = (unsigned char *) malloc(cap);
  size_t l = mpn_get_str(s, base, up, n);
  /* mpn_get_str may produce leading zero digits; the value is what counts: strip them for comparison */
  size_t z = 0; while (z + 1 < l && s[z] == 0) z++;
  out_bytes(s + z, l - z);
  if (!gbuf_ok(up, n + 1)) outs("REDZONE");
  free(s); gbuf_free(up);
}
static void op_nset_str(int argc, char **argv)
{
  (void)argc; int base = (int)arg_l(argv[1]); size_t n = unhexs(argv[2], sbuf, sizeof sbuf);
  mp_size_t rn = (mp_size_t)(n * 8 / 64) + 3; mp_ptr rp = gbuf_alloc(rn);
  mp_size_t l = mpn_set_str(rp, sbuf, n, base);
  out_limbs(rp, l); if (l > 0 && rp[l-1] == 0) outs("NOT-NORMALISED");
  if (!gbuf_ok(rp, rn)) outs("REDZONE");
  gbuf_free(rp);
}
/* mpq_set_str base x:bytes */
static void op_qset_str(int argc, char **argv)
{
  (void)argc; int base = (int)arg_l(argv[1]); size_t n = unhexs(argv[2], sbuf, sizeof sbuf - 1); sbuf[n] = 0;
  mpq_t q; mpq_init(q); int r = mpq_set_str(q, (char *)sbuf, base);
  outl(r); if (r == 0) { out_zv(mpq_numref(q)); out_zv(mpq_denref(q)); }
  if (!z_wf(mpq_numref(q)) || !z_wf(mpq_denref(q))) outs("BADFORMAT");
  mpq_clear(q);
}
const op_t ops_radix[] = {
  {"mpz_set_str", op_set_str}, {"mpz_get_str", op_get_str}, {"mpz_sizeinbase", op_sizeinbase}, {"mpz_out_str", op_out_str},
  {"mpz_inp_str", op_inp_str}, {"mpn_get_str", op_nget_str}, {"mpn_set_str", op_nset_str}, {"mpq_set_str", op_qset_str},
  {NULL, NULL}
};
