#include "common.h"
const op_t ops_mul[] = { {NULL, NULL} };
