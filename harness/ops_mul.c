/* ops_mul.c — C01 operations.  Internal routines are observed with link-time
   wrapping (-Wl,--wrap=...): which multiplication algorithm ran, and the FFT
   (depth, w) chosen by mpn_mul_fft_main. */
#include "common.h"

/* ---- regime observation ------------------------------------------------ */
static __thread unsigned long regime;            /* bit set per routine entered during the case */
static __thread long fft_kind, fft_depth, fft_w; /* last FFT entry: 1 trunc, 2 mfa */
enum { R_BASECASE, R_KARA, R_TOOM3N, R_TOOM3, R_TOOM32, R_TOOM42, R_TOOM4N, R_TOOM4, R_TOOM53, R_TOOM8H,
       R_SQRBASE, R_KARASQR, R_TOOM3SQR, R_TOOM4SQR, R_TOOM8SQR, R_FFTMAIN, R_FFTTRUNC, R_FFTMFA };
static const char *rnames[] = { "basecase", "kara", "toom3n", "toom3", "toom32", "toom42", "toom4n", "toom4", "toom53", "toom8h",
       "sqrbase", "karasqr", "toom3sqr", "toom4sqr", "toom8sqr", "fftmain", "ffttrunc", "fftmfa" };
#define NREG 18
static void out_regime(void)
{
  char buf[256]; size_t l = 0;
  l += (size_t) snprintf(buf + l, sizeof buf - l, "#r=");
  int first = 1;
  for (int i = 0; i < NREG; i++) if (regime & (1UL << i)) {
    l += (size_t) snprintf(buf + l, sizeof buf - l, "%s%s", first ? "" : "+", rnames[i]); first = 0; }
  if (first) l += (size_t) snprintf(buf + l, sizeof buf - l, "none");
  outs(buf);
}

/* capture of the operands of the multiplications a routine calls directly (depth 1): the evaluation points of Toom-3 */
static __thread int cap_on, cap_depth, cap_n; static __thread mpz_t cap_x[16], cap_y[16];
static void cap_record(mp_srcptr x, mp_size_t xn, mp_srcptr y, mp_size_t yn)
{
  if (!cap_on || cap_depth != 1 || cap_n >= 16) return;
  mpz_init(cap_x[cap_n]); mpz_init(cap_y[cap_n]);
  mpz_import(cap_x[cap_n], (size_t)xn, -1, 8, 0, 0, x); mpz_import(cap_y[cap_n], (size_t)yn, -1, 8, 0, 0, y); cap_n++;
}
#define WRAPV(sym, bit, proto, args) \
  void __real_##sym proto; void __wrap_##sym proto { regime |= 1UL << (bit); CAP_##bit; cap_depth++; __real_##sym args; cap_depth--; }
#define CAP_R_BASECASE cap_record(u, un, v, vn)
#define CAP_R_KARA cap_record(x, n, y, n)
#define CAP_R_TOOM3N cap_record(x, n, y, n)
#define CAP_R_TOOM3
#define CAP_R_TOOM32
#define CAP_R_TOOM42
#define CAP_R_TOOM4N
#define CAP_R_TOOM4
#define CAP_R_TOOM53
#define CAP_R_TOOM8H
#define CAP_R_SQRBASE
#define CAP_R_KARASQR
#define CAP_R_TOOM3SQR
#define CAP_R_TOOM4SQR
#define CAP_R_TOOM8SQR
#define CAP_R_FFTMAIN
/* mpn_mul_n and mpn_mul: entry points other files use for their recursive products (Toom-4); no regime bit, only depth and capture */
void __real___gmpn_mul_n(mp_ptr, mp_srcptr, mp_srcptr, mp_size_t);
void __wrap___gmpn_mul_n(mp_ptr r, mp_srcptr x, mp_srcptr y, mp_size_t n) { cap_record(x, n, y, n); cap_depth++; __real___gmpn_mul_n(r, x, y, n); cap_depth--; }
mp_limb_t __real___gmpn_mul(mp_ptr, mp_srcptr, mp_size_t, mp_srcptr, mp_size_t);
mp_limb_t __wrap___gmpn_mul(mp_ptr r, mp_srcptr x, mp_size_t xn, mp_srcptr y, mp_size_t yn)
{ cap_record(x, xn, y, yn); cap_depth++; mp_limb_t c = __real___gmpn_mul(r, x, xn, y, yn); cap_depth--; return c; }
WRAPV(__gmpn_mul_basecase, R_BASECASE, (mp_ptr r, mp_srcptr u, mp_size_t un, mp_srcptr v, mp_size_t vn), (r, u, un, v, vn))
WRAPV(__gmpn_kara_mul_n, R_KARA, (mp_ptr r, mp_srcptr x, mp_srcptr y, mp_size_t n, mp_ptr t), (r, x, y, n, t))
WRAPV(__gmpn_toom3_mul_n, R_TOOM3N, (mp_ptr r, mp_srcptr x, mp_srcptr y, mp_size_t n, mp_ptr t), (r, x, y, n, t))
WRAPV(__gmpn_toom3_mul, R_TOOM3, (mp_ptr r, mp_srcptr x, mp_size_t xn, mp_srcptr y, mp_size_t yn, mp_ptr t), (r, x, xn, y, yn, t))
WRAPV(__gmpn_toom32_mul, R_TOOM32, (mp_ptr r, mp_srcptr x, mp_size_t xn, mp_srcptr y, mp_size_t yn), (r, x, xn, y, yn))
WRAPV(__gmpn_toom42_mul, R_TOOM42, (mp_ptr r, mp_srcptr x, mp_size_t xn, mp_srcptr y, mp_size_t yn), (r, x, xn, y, yn))
WRAPV(__gmpn_toom4_mul_n, R_TOOM4N, (mp_ptr r, mp_srcptr x, mp_srcptr y, mp_size_t n), (r, x, y, n))
WRAPV(__gmpn_toom4_mul, R_TOOM4, (mp_ptr r, mp_srcptr x, mp_size_t xn, mp_srcptr y, mp_size_t yn), (r, x, xn, y, yn))
WRAPV(__gmpn_toom53_mul, R_TOOM53, (mp_ptr r, mp_srcptr x, mp_size_t xn, mp_srcptr y, mp_size_t yn), (r, x, xn, y, yn))
WRAPV(__gmpn_toom8h_mul, R_TOOM8H, (mp_ptr r, mp_srcptr x, mp_size_t xn, mp_srcptr y, mp_size_t yn), (r, x, xn, y, yn))
WRAPV(__gmpn_sqr_basecase, R_SQRBASE, (mp_ptr r, mp_srcptr x, mp_size_t n), (r, x, n))
WRAPV(__gmpn_kara_sqr_n, R_KARASQR, (mp_ptr r, mp_srcptr x, mp_size_t n, mp_ptr t), (r, x, n, t))
WRAPV(__gmpn_toom3_sqr_n, R_TOOM3SQR, (mp_ptr r, mp_srcptr x, mp_size_t n, mp_ptr t), (r, x, n, t))
WRAPV(__gmpn_toom4_sqr_n, R_TOOM4SQR, (mp_ptr r, mp_srcptr x, mp_size_t n), (r, x, n))
WRAPV(__gmpn_toom8_sqr_n, R_TOOM8SQR, (mp_ptr r, mp_srcptr x, mp_size_t n), (r, x, n))
WRAPV(__gmpn_mul_fft_main, R_FFTMAIN, (mp_ptr r, mp_srcptr x, mp_size_t xn, mp_srcptr y, mp_size_t yn), (r, x, xn, y, yn))
void __real___gmpn_mul_trunc_sqrt2(mp_ptr, mp_srcptr, mp_size_t, mp_srcptr, mp_size_t, mp_bitcnt_t, mp_bitcnt_t);
void __wrap___gmpn_mul_trunc_sqrt2(mp_ptr r, mp_srcptr a, mp_size_t an, mp_srcptr b, mp_size_t bn, mp_bitcnt_t depth, mp_bitcnt_t w)
{ regime |= 1UL << R_FFTTRUNC; fft_kind = 1; fft_depth = (long)depth; fft_w = (long)w; __real___gmpn_mul_trunc_sqrt2(r, a, an, b, bn, depth, w); }
void __real___gmpn_mul_mfa_trunc_sqrt2(mp_ptr, mp_srcptr, mp_size_t, mp_srcptr, mp_size_t, mp_bitcnt_t, mp_bitcnt_t);
void __wrap___gmpn_mul_mfa_trunc_sqrt2(mp_ptr r, mp_srcptr a, mp_size_t an, mp_srcptr b, mp_size_t bn, mp_bitcnt_t depth, mp_bitcnt_t w)
{ regime |= 1UL << R_FFTMFA; fft_kind = 2; fft_depth = (long)depth; fft_w = (long)w; __real___gmpn_mul_mfa_trunc_sqrt2(r, a, an, b, bn, depth, w); }

/* ---- residues of a limb vector modulo the four oracle moduli (own arithmetic) ---- */
static const mp_limb_t MODS[4] = { 2305843009213693951UL, 18446744073709551557UL, 18446744073709551533UL, 4611686018427387847UL };
static mp_limb_t limbs_mod(mp_srcptr p, mp_size_t n, mp_limb_t m)
{
  unsigned __int128 r = 0;
  for (mp_size_t i = n - 1; i >= 0; i--) r = ((r << 64) | p[i]) % m;
  return (mp_limb_t) r;
}
void out_residues(mp_srcptr p, mp_size_t n) { for (int i = 0; i < 4; i++) outul(limbs_mod(p, n, MODS[i])); }

/* mpn_toom3_points n A B : mpn_toom3_mul_n called directly; prints the operands of its five recursive products in call order
   (v1, vm1, v2, v0, vinf: the evaluation points as the code formed them) and the product */
static void op_toom3_points(int argc, char **argv)
{
  (void)argc; mp_size_t n = arg_l(argv[1]);
  mp_ptr ap = gbuf_alloc(n), bp = gbuf_alloc(n), cp = gbuf_alloc(2 * n), tp = gbuf_alloc(4 * n + 300);
  parse_limbs(argv[2], ap, n); parse_limbs(argv[3], bp, n);
  cap_on = 1; cap_depth = 0; cap_n = 0;
  mpn_toom3_mul_n(cp, ap, bp, n, tp);          /* wrapped: depth becomes 1 inside */
  cap_on = 0;
  /* when the recursion goes through a call inside the routine's own file (Toom-3 calling itself: other tuning tables), link-time
     wrapping cannot see the five products: print count 0 and only the product */
  outl(cap_n == 5 ? 5 : 0);
  for (int i = 0; i < cap_n; i++) { if (cap_n == 5) { out_zv(cap_x[i]); out_zv(cap_y[i]); } mpz_clear(cap_x[i]); mpz_clear(cap_y[i]); }
  out_limbs(cp, 2 * n);
  if (!gbuf_ok(ap, n) || !gbuf_ok(bp, n) || !gbuf_ok(cp, 2 * n) || !gbuf_ok(tp, 4 * n + 300)) outs("REDZONE");
  gbuf_free(ap); gbuf_free(bp); gbuf_free(cp); gbuf_free(tp);
}
/* mpn_mul_sliced un U vn V : mpn_mul on an operand longer than MUL_BASECASE_MAX_UN with a short one: product and a 0 (the model's
   second output is its "carry left the written limbs" flag, proved always false) */
static void op_mul_sliced(int argc, char **argv)
{
  (void)argc; mp_size_t un = arg_l(argv[1]), vn = arg_l(argv[3]);
  mp_ptr up = gbuf_alloc(un), vp = gbuf_alloc(vn), rp = gbuf_alloc(un + vn);
  parse_limbs(argv[2], up, un); parse_limbs(argv[4], vp, vn);
  mpn_mul(rp, up, un, vp, vn);
  out_limbs(rp, un + vn); outl(0);
  if (!gbuf_ok(up, un) || !gbuf_ok(vp, vn) || !gbuf_ok(rp, un + vn)) outs("REDZONE");
  gbuf_free(up); gbuf_free(vp); gbuf_free(rp);
}
/* mpn_toom4_points n A B : mpn_toom4_mul_n called directly; the operands of its seven recursive products in call order
   (points 1, -1, 1/2, -1/2 (scaled by 8), 2, infinity, 0; magnitudes) and the product */
static void op_toom4_points(int argc, char **argv)
{
  (void)argc; mp_size_t n = arg_l(argv[1]);
  mp_ptr ap = gbuf_alloc(n), bp = gbuf_alloc(n), cp = gbuf_alloc(2 * n);
  parse_limbs(argv[2], ap, n); parse_limbs(argv[3], bp, n);
  cap_on = 1; cap_depth = 0; cap_n = 0;
  mpn_toom4_mul_n(cp, ap, bp, n);
  cap_on = 0;
  outl(cap_n == 7 ? 7 : 0);
  for (int i = 0; i < cap_n; i++) { if (cap_n == 7) { out_zv(cap_x[i]); out_zv(cap_y[i]); } mpz_clear(cap_x[i]); mpz_clear(cap_y[i]); }
  out_limbs(cp, 2 * n);
  if (!gbuf_ok(ap, n) || !gbuf_ok(bp, n) || !gbuf_ok(cp, 2 * n)) outs("REDZONE");
  gbuf_free(ap); gbuf_free(bp); gbuf_free(cp);
}
/* mpn_mul_1 n U v ovl(0 sep,1 in place) */
static void op_mul_1(int argc, char **argv)
{
  (void)argc; mp_size_t n = arg_l(argv[1]); mp_limb_t v = arg_ul(argv[3]); int ovl = (int)arg_l(argv[4]);
  mp_ptr up = gbuf_alloc(n), rp = ovl ? up : gbuf_alloc(n);
  parse_limbs(argv[2], up, n);
  mp_limb_t c = mpn_mul_1(rp, up, n, v);
  out_limbs(rp, n); outul(c);
  if (!gbuf_ok(up, n) || !gbuf_ok(rp, n)) outs("REDZONE");
  if (!ovl) gbuf_free(rp);
  gbuf_free(up);
}
/* mpn_addmul_1 / mpn_submul_1: n R U v same(1: up == rp) */
static void do_aorsmul_1(char **argv, int sub)
{
  mp_size_t n = arg_l(argv[1]); mp_limb_t v = arg_ul(argv[4]); int same = (int)arg_l(argv[5]);
  mp_ptr rp = gbuf_alloc(n), up = same ? rp : gbuf_alloc(n);
  if (!same) parse_limbs(argv[3], up, n);
  parse_limbs(argv[2], rp, n);
  mp_limb_t c = sub ? mpn_submul_1(rp, up, n, v) : mpn_addmul_1(rp, up, n, v);
  out_limbs(rp, n); outul(c);
  if (!gbuf_ok(up, n) || !gbuf_ok(rp, n)) outs("REDZONE");
  if (!same) gbuf_free(up);
  gbuf_free(rp);
}
static void op_addmul_1(int c, char **v) { (void)c; do_aorsmul_1(v, 0); }
static void op_submul_1(int c, char **v) { (void)c; do_aorsmul_1(v, 1); }

/* generic two-operand product: kind selects the entry point.
   args: un U vn V same ; exact output (value, high limb) or residues when big != 0 */
enum { K_MUL, K_MUL_N, K_SQR, K_BASECASE, K_KARA, K_FFTMAIN };
static void do_mul(char **argv, int kind, int big)
{
  mp_size_t un = arg_l(argv[1]), vn = arg_l(argv[3]); int same = (int)arg_l(argv[5]);
  mp_ptr up = gbuf_alloc(un), vp = same ? up : gbuf_alloc(vn), rp = gbuf_alloc(un + vn);
  parse_limbs(argv[2], up, un);
  if (!same) parse_limbs(argv[4], vp, vn);
  mp_limb_t hi = 0; regime = 0; fft_kind = 0;
  switch (kind) {
    case K_MUL: hi = mpn_mul(rp, up, un, vp, vn); break;
    case K_MUL_N: mpn_mul_n(rp, up, vp, un); hi = rp[2*un-1]; break;
    case K_SQR: mpn_sqr(rp, up, un); hi = rp[2*un-1]; break;
    case K_BASECASE: mpn_mul_basecase(rp, up, un, vp, vn); hi = rp[un+vn-1]; break;
    case K_KARA: { mp_ptr tp = gbuf_alloc(2*un + 64 + 2*GMP_LIMB_BITS);
                   mpn_kara_mul_n(rp, up, vp, un, tp);
                   if (!gbuf_ok(tp, 2*un + 64 + 2*GMP_LIMB_BITS)) outs("REDZONE-TP");
                   gbuf_free(tp); hi = rp[2*un-1]; break; }
    case K_FFTMAIN: mpn_mul_fft_main(rp, up, un, vp, vn); hi = rp[un+vn-1]; break;
  }
  if (kind == K_FFTMAIN) { outl(fft_kind); outl(fft_depth); outl(fft_w); }
  if (big) out_residues(rp, un + vn); else { out_limbs(rp, un + vn); outul(hi); }
  if (!gbuf_ok(up, un) || !gbuf_ok(vp, vn) || !gbuf_ok(rp, un + vn)) outs("REDZONE");
  out_regime();
  gbuf_free(rp); if (!same) gbuf_free(vp); gbuf_free(up);
}
static void op_mul(int c, char **v) { (void)c; do_mul(v, K_MUL, 0); }
static void op_mul_big(int c, char **v) { (void)c; do_mul(v, K_MUL, 1); }
static void op_mul_n(int c, char **v) { (void)c; do_mul(v, K_MUL_N, 0); }
static void op_mul_n_big(int c, char **v) { (void)c; do_mul(v, K_MUL_N, 1); }
static void op_sqr(int c, char **v) { (void)c; do_mul(v, K_SQR, 0); }
static void op_sqr_big(int c, char **v) { (void)c; do_mul(v, K_SQR, 1); }
static void op_basecase(int c, char **v) { (void)c; do_mul(v, K_BASECASE, 0); }
static void op_kara(int c, char **v) { (void)c; do_mul(v, K_KARA, 0); }
static void op_fftmain(int c, char **v) { (void)c; do_mul(v, K_FFTMAIN, 1); }

/* mpz_mul U V alias (0 none,1 w=u,2 w=v,3 u=v,4 w=u=v) [big] */
static void do_zmul(char **argv, int big)
{
  mpz_t u, v, w, u0, v0; int al = (int)arg_l(argv[3]);
  parse_z(argv[1], u); parse_z(argv[2], v); mpz_init(w); mpz_realloc2(w, 1);
  mpz_init_set(u0, u); mpz_init_set(v0, v);
  mpz_ptr pu = u, pv = v, pw = w;
  if (al == 1) pw = u; else if (al == 2) pw = v; else if (al == 3) pv = u; else if (al == 4) { pv = u; pw = u; }
  regime = 0;
  mpz_mul(pw, pu, pv);
  if (big) { outl(SIZ(pw) < 0 ? -1 : SIZ(pw) > 0); out_residues(PTR(pw), ABSIZ(pw)); if (!z_wf(pw)) outs("BADFORMAT"); }
  else out_z(pw);
  if (pw != u && mpz_cmp(u, u0) != 0) outs("SRCMOD");
  if (pw != v && pv == v && mpz_cmp(v, v0) != 0) outs("SRCMOD");
  out_regime();
  mpz_clear(u); mpz_clear(v); mpz_clear(w); mpz_clear(u0); mpz_clear(v0);
}
static void op_zmul(int c, char **v) { (void)c; do_zmul(v, 0); }
static void op_zmul_big(int c, char **v) { (void)c; do_zmul(v, 1); }

/* mpz_mul_ui U v alias ; mpz_mul_si U v alias */
static void op_zmul_ui(int argc, char **argv)
{
  (void)argc; mpz_t u, w; int al = (int)arg_l(argv[3]);
  parse_z(argv[1], u); mpz_init(w); mpz_realloc2(w, 1);
  mpz_ptr pw = al ? u : w;
  mpz_mul_ui(pw, u, arg_ul(argv[2])); out_z(pw);
  mpz_clear(u); mpz_clear(w);
}
static void op_zmul_si(int argc, char **argv)
{
  (void)argc; mpz_t u, w; int al = (int)arg_l(argv[3]);
  parse_z(argv[1], u); mpz_init(w); mpz_realloc2(w, 1);
  mpz_ptr pw = al ? u : w;
  mpz_mul_si(pw, u, arg_l(argv[2])); out_z(pw);
  mpz_clear(u); mpz_clear(w);
}
/* mpz_addmul / mpz_submul: W X Y alias (0 none, 1 w=x, 2 w=y, 3 x=y, 4 w=x=y) */
static void do_zaorsmul(char **argv, int sub)
{
  mpz_t w, x, y, x0, y0; int al = (int)arg_l(argv[4]);
  parse_z(argv[1], w); parse_z(argv[2], x); parse_z(argv[3], y);
  mpz_init_set(x0, x); mpz_init_set(y0, y);
  mpz_realloc2(w, (ABSIZ(w) ? ABSIZ(w) : 1) * GMP_NUMB_BITS);
  mpz_ptr pw = w, px = x, py = y;
  if (al == 1) pw = x; else if (al == 2) pw = y; else if (al == 3) py = x; else if (al == 4) { py = x; pw = x; }
  if (sub) mpz_submul(pw, px, py); else mpz_addmul(pw, px, py);
  out_z(pw);
  if (pw != x && mpz_cmp(x, x0) != 0) outs("SRCMOD");
  if (pw != y && py == y && mpz_cmp(y, y0) != 0) outs("SRCMOD");
  mpz_clear(w); mpz_clear(x); mpz_clear(y); mpz_clear(x0); mpz_clear(y0);
}
static void op_zaddmul(int c, char **v) { (void)c; do_zaorsmul(v, 0); }
static void op_zsubmul(int c, char **v) { (void)c; do_zaorsmul(v, 1); }
/* mpz_addmul_ui / submul_ui: W X y alias(0 none, 1 w=x) */
static void do_zaorsmul_ui(char **argv, int sub)
{
  mpz_t w, x, x0; int al = (int)arg_l(argv[4]);
  parse_z(argv[1], w); parse_z(argv[2], x); mpz_init_set(x0, x);
  mpz_realloc2(w, (ABSIZ(w) ? ABSIZ(w) : 1) * GMP_NUMB_BITS);
  mpz_ptr pw = al ? x : w;
  if (sub) mpz_submul_ui(pw, x, arg_ul(argv[3])); else mpz_addmul_ui(pw, x, arg_ul(argv[3]));
  out_z(pw);
  if (pw != x && mpz_cmp(x, x0) != 0) outs("SRCMOD");
  mpz_clear(w); mpz_clear(x); mpz_clear(x0);
}
static void op_zaddmul_ui(int c, char **v) { (void)c; do_zaorsmul_ui(v, 0); }
static void op_zsubmul_ui(int c, char **v) { (void)c; do_zaorsmul_ui(v, 1); }

const op_t ops_mul[] = { {"mpn_toom3_points", op_toom3_points}, {"mpn_toom4_points", op_toom4_points}, {"mpn_mul_sliced", op_mul_sliced},
  {"mpn_mul_1", op_mul_1}, {"mpn_addmul_1", op_addmul_1}, {"mpn_submul_1", op_submul_1},
  {"mpn_mul", op_mul}, {"mpn_mul_big", op_mul_big}, {"mpn_mul_n", op_mul_n}, {"mpn_mul_n_big", op_mul_n_big},
  {"mpn_sqr", op_sqr}, {"mpn_sqr_big", op_sqr_big}, {"mpn_mul_basecase", op_basecase}, {"mpn_kara_mul_n", op_kara},
  {"mpn_mul_fft_main", op_fftmain},
  {"mpz_mul", op_zmul}, {"mpz_mul_big", op_zmul_big}, {"mpz_mul_ui", op_zmul_ui}, {"mpz_mul_si", op_zmul_si},
  {"mpz_addmul", op_zaddmul}, {"mpz_submul", op_zsubmul}, {"mpz_addmul_ui", op_zaddmul_ui}, {"mpz_submul_ui", op_zsubmul_ui},
  {NULL, NULL}
};
